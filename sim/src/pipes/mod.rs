//! E2 `pipesim`: byte-stream components (noise, mux, rpc) over `SimPipe`s.
pub mod bytes;
pub mod mux;
pub mod muxflood;
pub mod noise;
pub mod rpc;

use std::rc::Rc;

use crate::{
    cli::CaseResult,
    kit::{self, run_sim, Sched},
    prim::policy_from,
};

fn one<F, Fut>(seed: u64, f: F) -> (CaseResult, Vec<String>)
where
    F: FnOnce(Rc<Sched>) -> Fut,
    Fut: std::future::Future<Output = (CaseResult, Vec<String>)>,
{
    let mut rng = kit::stream(seed, "pipe-policy");
    let sched = Rc::new(Sched::new(seed, policy_from(&mut rng), false));
    let ((mut res, log), rt) = run_sim(seed, sched.clone(), f);
    if let Err(e) = rt {
        if res.violations.is_empty() && !res.probes.contains_key("step_budget_exhausted") {
            res.harness_error.get_or_insert(e);
        }
    }
    (res, log)
}

pub fn run_case(mode: &str, seed: u64, keep_log: bool) -> (CaseResult, Vec<String>) {
    crate::kit::entropy::isolated(seed, || {
        let (mut r, log) = run_case_inner(mode, seed, keep_log);
        r.draws = crate::kit::tape::draws();
        (r, log)
    })
}

fn run_case_inner(mode: &str, seed: u64, keep_log: bool) -> (CaseResult, Vec<String>) {
    kit::panics::take();
    let (mut res, log) = match mode {
        "noise" => one(seed, |s| noise::run_benign(seed, s, keep_log)),
        "mux" => one(seed, |s| mux::run(seed, s, keep_log)),
        "rpc" => one(seed, |s| rpc::run(seed, s, keep_log)),
        "muxflood" => one(seed, |s| muxflood::run(seed, s, keep_log)),
        "bytes" => panics_to_c10(one(seed, |s| bytes::run(seed, s, keep_log, None))),
        // Exhaustive over the 2^16 mux header values: run i of the batch sends header value i.
        "mux-header" => {
            let h = (seed % 65536) as u16;
            let mut r = panics_to_c10(one(seed, |s| bytes::run(seed, s, keep_log, Some(h))));
            r.0.summary = serde_json::json!({"mux_header_value": h});
            r
        }
        "noise-tamper" => {
            // Fault enumeration: every (transport frame x tamper kind) of the base run `seed`.
            let mut frames = 1usize;
            let mut agg: Option<CaseResult> = None;
            let mut logs = vec![];
            let mut target = 0;
            let mut points = 0u64;
            while target < frames {
                for kind in noise::TAMPER_KINDS {
                    let mut n = 0;
                    let (r, l) = one(seed, |s| async {
                        let (r, l, nf) = noise::run_tamper(seed, s, keep_log, target, kind).await;
                        n = nf;
                        (r, l)
                    });
                    frames = frames.max(n);
                    points += 1;
                    if keep_log {
                        logs.push(format!("--- tamper {kind} on frame {target}"));
                        logs.extend(l);
                    }
                    match &mut agg {
                        None => agg = Some(r),
                        Some(a) => {
                            a.log_fp = kit::mix(a.log_fp, r.log_fp);
                            a.sched_fp = kit::mix(a.sched_fp, r.sched_fp);
                            a.steps += r.steps;
                            a.events += r.events;
                            a.violations.extend(r.violations);
                            a.abstract_states.extend(r.abstract_states);
                            for (k, v) in r.faults {
                                *a.faults.entry(k).or_default() += v;
                            }
                            for (k, v) in r.probes {
                                *a.probes.entry(k).or_default() += v;
                            }
                            if a.harness_error.is_none() {
                                a.harness_error = r.harness_error;
                            }
                        }
                    }
                }
                target += 1;
            }
            let mut a = agg.unwrap();
            a.mode = "noise-tamper".into();
            a.nontrivial = frames >= 2;
            a.summary = serde_json::json!({"transport_frames": frames, "tamper_kinds": noise::TAMPER_KINDS.len(), "points_enumerated": points, "exhaustive_for_this_base_run": true});
            (a, logs)
        }
        m => panic!("unknown pipe mode {m}"),
    };
    res.panics = kit::panics::take();
    (res, log)
}

/// In the byte-level robustness scenarios every panic in code under test is a C10 violation.
fn panics_to_c10(mut r: (CaseResult, Vec<String>)) -> (CaseResult, Vec<String>) {
    let panics = kit::panics::take();
    for p in &panics {
        if p.contains("one of the tasks panicked") {
            continue;
        }
        r.0.violations.push(kit::Violation {
            property: "C10".into(),
            class: "node_panic".into(),
            detail: p.clone(),
            event: r.0.events,
        });
        r.1.push(format!("VIOLATION C10 node_panic: {p}"));
    }
    r.0.panics = panics;
    r
}
