//! C14: two real `mux::Mux` endpoints (via hook H4) over a `SimPipe`.
//!
//! Per side random capability sets and stream limits (0-4, deliberately unequal, a capability on
//! one side only), tiny randomised frame / buffer / frame-count limits so that they bind, and
//! several application workers per queue which open / accept transient streams, write
//! self-describing data (use id, then bytes derived from it), flush, close, and read completely,
//! slowly, partially or not at all.
//!
//! Oracle: a bijection between the two sides' stream uses of each capability (each side reads the
//! other's use id; no id is read twice); bytes read are exactly the counterpart's bytes, in
//! order, complete when read to end-of-stream; EOS is seen only after the counterpart dropped its
//! write half; streams held simultaneously per capability and direction never exceed
//! min(local limit, peer limit); payload pulled from the transport but not yet consumed by the
//! application never exceeds `read_buffer_size`.
use std::{collections::BTreeMap, rc::Rc, sync::{Arc, Mutex}};

use rand::Rng;
use serde_json::json;
use zksync_concurrency::{ctx, limiter, oneshot, scope, time, verif::{sched_point, tokio_shim as gtokio}};
use zksync_consensus_network::verif::mux::{Config, Mux, ReadStream, StreamQueue, WriteStream};

use crate::{
    cli::CaseResult,
    kit::{self, pipe::{self, PipeCfg}, Sched},
    prim::{finish, new_hist, Director, HistExt, SharedHist},
};

#[derive(Debug, Clone)]
pub enum Ev {
    Open { side: usize, cap: u64, connect: bool, uid: u64 },
    WriteDone { uid: u64, bytes: u64 },
    /// Logged right before the write half is dropped.
    WriteClosed { uid: u64 },
    ReadPeer { uid: u64, peer_uid: u64 },
    ReadEos { uid: u64, bytes: u64 },
    ReadAbandoned { uid: u64, bytes: u64 },
    Corrupt { uid: u64, detail: String },
    /// Logged right before the read half is dropped.
    ReadDropped { uid: u64 },
    /// Both halves of the use are gone.
    Released { side: usize, cap: u64, connect: bool, uid: u64 },
}

fn data_byte(uid: u64, i: u64) -> u8 {
    (kit::mix(uid, i >> 3) >> ((i & 7) * 8)) as u8
}

struct QueueSpec {
    cap: u64,
    connect: bool,
    max_streams: u32,
    workers: usize,
    uses: usize,
}

pub async fn run(seed: u64, sched: Rc<Sched>, keep_log: bool) -> (CaseResult, Vec<String>) {
    let mut rng = kit::stream(seed, "mux");
    let hist: SharedHist<Ev> = new_hist(keep_log);
    let clock = ctx::ManualClock::new();
    let root = Arc::new(ctx::test_root(&clock));
    let mut brng = kit::stream(seed, "mux-boundary");
    let boundary = brng.gen_range(0..100) < 10;
    let (ca, cb) = (PipeCfg::random(&mut rng), PipeCfg::random(&mut rng));
    // (Boundary runs move hundreds of kilobytes: over a benign transport.)
    let (pa, pb) = if boundary { pipe::pair(seed, "mux", PipeCfg::benign(), PipeCfg::benign()) } else { pipe::pair(seed, "mux", ca, cb) };
    pa.tx.lock().unwrap().keep_wire = true;
    pb.tx.lock().unwrap().keep_wire = true;
    let dirs = [pa.tx.clone(), pb.tx.clone()]; // dirs[s] = what side s sends
    // Configurations (tiny, so the limits bind).
    let mk_cfg = |rng: &mut crate::kit::SimRng| {
        let frame = [1u64, 2, 7, 64, 1000][rng.gen_range(0..5)];
        let buffer = frame * [1u64, 2, 5, 50][rng.gen_range(0..4)];
        let count = [1u64, 2, 5, 100][rng.gen_range(0..4)];
        let wframe = [1u64, 3, 64, 5000, 65535][rng.gen_range(0..5)];
        (frame, buffer, count, wframe)
    };
    let mut cfgs = [mk_cfg(&mut rng), mk_cfg(&mut rng)];
    // Boundary population (own stream, so the other runs keep their fingerprints): frame sizes at
    // and just above the largest length a frame header can carry, and writes of more than 64 KiB
    // without a flush.  A configuration the multiplexer refuses to run with is a legitimate
    // outcome (nothing is delivered); delivering anything but the bytes written is not.
    if boundary {
        for c in cfgs.iter_mut() {
            let wframe = [65535u64, 65536, 65536, 65536, 65537][brng.gen_range(0..5)];
            *c = (65536, 65536 * 3, 5, wframe);
        }
        hist.note(format!("boundary configuration: {cfgs:?}"));
    }
    let ncaps = rng.gen_range(1..=3u64);
    // For each capability and direction (0: side 0 connects / side 1 accepts; 1: the reverse).
    let mut specs: [Vec<QueueSpec>; 2] = [vec![], vec![]];
    let mut limits: BTreeMap<(u64, usize), (u32, u32)> = BTreeMap::new(); // (cap, connecting side) -> (connect max, accept max)
    for cap in 0..ncaps {
        for dir in 0..2usize {
            if rng.gen_range(0..100) < 25 {
                continue;
            }
            let (c_side, a_side) = (dir, 1 - dir);
            let cmax = rng.gen_range(0..=4u32);
            let amax = rng.gen_range(0..=4u32);
            let one_sided = rng.gen_range(0..100) < 12;
            specs[c_side].push(QueueSpec { cap, connect: true, max_streams: cmax, workers: rng.gen_range(1..=3), uses: rng.gen_range(1..=4) });
            if !one_sided {
                specs[a_side].push(QueueSpec { cap, connect: false, max_streams: amax, workers: rng.gen_range(1..=3), uses: rng.gen_range(1..=4) });
                limits.insert((cap, c_side), (cmax, amax));
            } else {
                limits.insert((cap, c_side), (cmax, 0));
            }
        }
    }
    hist.note(format!("mux cfgs {cfgs:?} caps {ncaps} limits {limits:?}"));
    let uid_ctr = Arc::new(Mutex::new(0u64));
    // Per side: (payload bytes read by the applications, capacity of application reads in progress:
    // bytes already copied into an unfinished `read_exact` are consumed from the mux's viewpoint).
    let consumed = [Arc::new(Mutex::new((0u64, 0u64))), Arc::new(Mutex::new((0u64, 0u64)))];
    let complete_readers = rng.gen_range(0..100) < 60;
    let mut kills = vec![];
    let mut mux_tasks = vec![];
    let mut workers = vec![];
    let pipes = [Some(pa), Some(pb)];
    let mut pipes = pipes;
    for side in 0..2usize {
        let (f, b, c, w) = cfgs[side];
        let mut mux = Mux::new(Config::new(f, b, c, w));
        let mut queues = vec![];
        for q in &specs[side] {
            let rate = if rng.gen_range(0..100) < 70 { limiter::Rate::INF } else { limiter::Rate { burst: 2, refresh: time::Duration::milliseconds(3) } };
            let sq = StreamQueue::new(&root, q.max_streams, rate);
            mux = if q.connect { mux.connect(q.cap, &sq) } else { mux.accept(q.cap, &sq) };
            queues.push(sq);
        }
        let (kill, kill_recv) = oneshot::channel::<()>();
        kills.push(kill);
        let pipe = pipes[side].take().unwrap();
        let (clock2, hist2) = (clock.clone(), hist.clone());
        mux_tasks.push(gtokio::spawn(async move {
            let r = ctx::test_root(&clock2);
            let res: Result<(), ()> = scope::run!(&r, |ctx, s| async move {
                s.spawn_bg(async move {
                    let e = mux.run(ctx, pipe).await;
                    hist2.note(format!("mux {side} ended: {e:?}"));
                    Ok(())
                });
                let _ = kill_recv.recv_or_disconnected(ctx).await;
                Ok(())
            })
            .await;
            let _ = res;
        }));
        for (qi, q) in specs[side].iter().enumerate() {
            for wk in 0..q.workers {
                let sq = queues[qi].clone();
                let (root, hist, uid_ctr, consumed) = (root.clone(), hist.clone(), uid_ctr.clone(), consumed[side].clone());
                let (cap, connect, uses) = (q.cap, q.connect, q.uses);
                let mut wrng = kit::stream(seed, &format!("w{side}-{qi}-{wk}"));
                workers.push(gtokio::spawn(async move {
                    for _ in 0..uses {
                        // With complete readers nothing may be discarded (the buffer accounting is
                        // exact), so an `open` must not be abandoned half-way: it only times out
                        // after the director has seen the run go quiescent and jumped the clock.
                        let octx = root.with_timeout(if complete_readers { time::Duration::hours(1) } else { time::Duration::milliseconds(400) });
                        let Ok(stream) = sq.open(&octx).await else { break };
                        let uid = {
                            let mut c = uid_ctr.lock().unwrap();
                            *c += 1;
                            *c
                        };
                        hist.rec(Ev::Open { side, cap, connect, uid });
                        let len: u64 = match wrng.gen_range(0..10) { 0 => 0, 1..=6 => wrng.gen_range(1..200), _ => wrng.gen_range(200..5000) };
                        let chunk = [1usize, 5, 64, 4096][wrng.gen_range(0..4)];
                        let flush_pct = wrng.gen_range(0..60u32);
                        let (len, chunk, flush_pct) = if boundary { (65_000 + len, 70_000usize, flush_pct / 8) } else { (len, chunk, flush_pct) };
                        let rmode = if complete_readers { wrng.gen_range(0..2) } else { wrng.gen_range(0..4) };
                        let rchunk = [1usize, 3, 50, 1000][wrng.gen_range(0..4)];
                        // (Boundary runs move 65-70 kB per stream: read in pages, not byte by byte.)
                        let rchunk = if boundary { 4096 } else { rchunk };
                        let stop_after = wrng.gen_range(0..300u64);
                        let (hw, hr, root_w, root_r) = (hist.clone(), hist.clone(), root.clone(), root.clone());
                        let mut rr = kit::stream(wrng.gen(), "rw");
                        let wt = gtokio::spawn(write_half(stream.write, uid, len, chunk, flush_pct, hw, root_w, rr.gen()));
                        let consumed2 = consumed.clone();
                        let rt = gtokio::spawn(read_half(stream.read, uid, rmode, rchunk, stop_after, hr, root_r, consumed2));
                        let _ = wt.await;
                        let _ = rt.await;
                        hist.rec(Ev::Released { side, cap, connect, uid });
                    }
                }));
            }
        }
    }
    // Director: steps + clock; invariant on unconsumed payload after every step.
    let mut d = Director::new(seed, sched.clone(), clock.clone());
    d.tick_pct = 2;
    d.tick_sizes = vec![100_000, 1_000_000];
    d.max_steps = 1_500_000;
    {
        let (h, d0, d1) = (hist.clone(), dirs[0].clone(), dirs[1].clone());
        d.progress = Some(Box::new(move || {
            h.lock().unwrap().log.seq() + d0.lock().unwrap().stats.read + d1.lock().unwrap().stats.read
        }));
    }
    let hist_inv = hist.clone();
    let dirs2 = dirs.clone();
    let consumed2 = consumed.clone();
    let mut max_unconsumed = [0u64; 2];
    let buffer_sizes = [cfgs[0].1, cfgs[1].1];
    let mut parsed = [WireCursor::default(), WireCursor::default()];
    let mut reported = [false; 2];
    let end = d
        .drive(
            || workers.iter().all(|h| h.is_finished()),
            |_| {
                // Side s receives what side 1-s sends.
                for s in 0..2usize {
                    let dir = dirs2[1 - s].lock().unwrap();
                    let pulled = parsed[s].payload_pulled(&dir.wire, dir.stats.read);
                    let (cons, inflight) = *consumed2[s].lock().unwrap();
                    let un = pulled.saturating_sub(cons + inflight);
                    max_unconsumed[s] = max_unconsumed[s].max(un);
                    if complete_readers && un > buffer_sizes[s] && !reported[s] {
                        reported[s] = true;
                        hist_inv.violation(
                            "C14",
                            "read_buffer_limit_exceeded",
                            format!("side {s}: {un} payload bytes pulled from the transport but not consumed by the application (pulled {pulled}, consumed {cons}, reads in progress {inflight}), read_buffer_size is {}", buffer_sizes[s]),
                        );
                    }
                }
            },
        )
        .await;
    let mut harness_error = None;
    let end = if matches!(end, crate::prim::DriveEnd::Stuck) && complete_readers {
        // Quiescent: the remaining workers wait for streams the peer will never open.
        d.advance(2 * 3600 * 1_000_000_000);
        d.drive(|| workers.iter().all(|h| h.is_finished()), |_| {}).await
    } else {
        end
    };
    if boundary && matches!(end, crate::prim::DriveEnd::StepLimit) {
        // A boundary run (hundreds of kilobytes) cut short by the harness' own step budget: no
        // verdict on what was in progress (found by the thorough tier: 2 of 60 000 runs, on the
        // unchanged tree, were reported as `streams_stuck`).
        hist.probe("step_budget_exhausted");
    } else if !matches!(end, crate::prim::DriveEnd::Done) {
        // Workers always time out of `open`; readers end when the peer's writer closes.
        hist.violation("C14", "streams_stuck", format!("application tasks did not finish ({} steps)", sched.steps()));
    }
    for k in kills {
        let _ = k.send(());
    }
    d.tick_sizes = vec![1_000_000_000];
    let _ = d.drive(|| mux_tasks.iter().all(|h| h.is_finished()), |_| {}).await;
    d.drain().await;
    if sched.live() != 0 && hist.lock().unwrap().violations.is_empty() {
        harness_error = Some("tasks alive".to_string());
    }
    check(&hist, &limits);
    let uses = hist.lock().unwrap().events.iter().filter(|(_, e)| matches!(e, Ev::Open { .. })).count();
    if max_unconsumed.iter().zip(buffer_sizes).any(|(u, b)| *u == b) {
        hist.probe("read_buffer_filled_to_the_limit");
    }
    let states = vec![kit::mix(uses.min(30) as u64, kit::mix(ncaps, (complete_readers as u64) << 8 | limits.len() as u64))];
    finish(seed, "mux", &sched, &hist, d.sim_ns, uses >= 2, states,
        json!({"capabilities": ncaps, "queues": [specs[0].len(), specs[1].len()], "stream_uses": uses, "cfg": cfgs, "complete_readers": complete_readers, "max_unconsumed": max_unconsumed}), harness_error)
}

#[allow(clippy::too_many_arguments)]
async fn write_half(mut w: WriteStream, uid: u64, len: u64, chunk: usize, flush_pct: u32, hist: SharedHist<Ev>, root: Arc<ctx::Ctx>, rseed: u64) {
    let mut rng = kit::stream(rseed, "wh");
    let ctx = &*root;
    let mut ok = w.write_all(ctx, &uid.to_le_bytes()).await.is_ok();
    let mut off = 0u64;
    while ok && off < len {
        let n = (chunk as u64).min(len - off);
        let buf: Vec<u8> = (0..n).map(|k| data_byte(uid, off + k)).collect();
        ok = w.write_all(ctx, &buf).await.is_ok();
        off += n;
        if ok && rng.gen_range(0..100) < flush_pct {
            ok = w.flush(ctx).await.is_ok();
        }
    }
    if ok {
        hist.rec(Ev::WriteDone { uid, bytes: len });
    }
    hist.rec(Ev::WriteClosed { uid });
    drop(w);
}

#[allow(clippy::too_many_arguments)]
async fn read_half(mut r: ReadStream, uid: u64, mode: u32, rchunk: usize, stop_after: u64, hist: SharedHist<Ev>, root: Arc<ctx::Ctx>, consumed: Arc<Mutex<(u64, u64)>>) {
    read_half_inner(&mut r, uid, mode, rchunk, stop_after, hist.clone(), root, consumed).await;
    hist.rec(Ev::ReadDropped { uid });
    drop(r);
}

#[allow(clippy::too_many_arguments)]
async fn read_half_inner(r: &mut ReadStream, uid: u64, mode: u32, rchunk: usize, stop_after: u64, hist: SharedHist<Ev>, root: Arc<ctx::Ctx>, consumed: Arc<Mutex<(u64, u64)>>) {
    let ctx = &*root;
    if mode == 3 {
        // not at all
        hist.rec(Ev::ReadAbandoned { uid, bytes: 0 });
        return;
    }
    let mut head = [0u8; 8];
    consumed.lock().unwrap().1 += 8;
    let res = r.read_exact(ctx, &mut head).await;
    {
        let mut c = consumed.lock().unwrap();
        c.1 -= 8;
        c.0 += *res.as_ref().unwrap_or(&0) as u64;
    }
    let Ok(n) = res else {
        hist.rec(Ev::ReadAbandoned { uid, bytes: 0 });
        return;
    };
    if n < 8 {
        hist.rec(Ev::ReadEos { uid, bytes: 0 });
        return;
    }
    let peer = u64::from_le_bytes(head);
    hist.rec(Ev::ReadPeer { uid, peer_uid: peer });
    let mut got = 0u64;
    loop {
        if mode == 1 {
            sched_point().await;
            sched_point().await;
        }
        if mode == 2 && got >= stop_after {
            hist.rec(Ev::ReadAbandoned { uid, bytes: got });
            return;
        }
        let mut buf = vec![0u8; rchunk];
        consumed.lock().unwrap().1 += rchunk as u64;
        let res = r.read_exact(ctx, &mut buf).await;
        {
            let mut c = consumed.lock().unwrap();
            c.1 -= rchunk as u64;
            c.0 += *res.as_ref().unwrap_or(&0) as u64;
        }
        let Ok(n) = res else {
            hist.rec(Ev::ReadAbandoned { uid, bytes: got });
            return;
        };
        for (i, b) in buf[..n].iter().enumerate() {
            if *b != data_byte(peer, got + i as u64) {
                hist.rec(Ev::Corrupt { uid, detail: format!("byte {} of the data of use {peer} differs", got + i as u64) });
                return;
            }
        }
        got += n as u64;
        if n < rchunk {
            hist.rec(Ev::ReadEos { uid, bytes: got });
            // End-of-stream is sticky: reading on (while the stream id may already be reused by
            // the next transient stream) yields nothing.
            if mode == 1 || got % 3 == 0 {
                for _ in 0..1 + got % 3 {
                    sched_point().await;
                    sched_point().await;
                    let mut extra = vec![0u8; rchunk.max(4)];
                    match r.read_exact(ctx, &mut extra).await {
                        Ok(0) | Err(_) => {}
                        Ok(k) => {
                            hist.rec(Ev::Corrupt { uid, detail: format!("{k} more bytes were returned after end-of-stream had been reported") });
                            return;
                        }
                    }
                }
            }
            return;
        }
    }
}

/// Incremental parser of the mux wire format: how many DATA payload bytes lie within the first
/// `read` bytes of the wire.
#[derive(Default)]
struct WireCursor {
    /// Offset up to which `wire` has been parsed into frames.
    parsed: usize,
    handshake_done: bool,
    /// (payload start offset, payload len) of DATA frames, in order.
    data: Vec<(usize, usize)>,
}

impl WireCursor {
    fn payload_pulled(&mut self, wire: &[u8], read: u64) -> u64 {
        // Parse as far as complete frames go.
        loop {
            if !self.handshake_done {
                if wire.len() < self.parsed + 4 {
                    break;
                }
                let n = u32::from_le_bytes(wire[self.parsed..self.parsed + 4].try_into().unwrap()) as usize;
                if wire.len() < self.parsed + 4 + n {
                    break;
                }
                self.parsed += 4 + n;
                self.handshake_done = true;
                continue;
            }
            if wire.len() < self.parsed + 2 {
                break;
            }
            let h = u16::from_le_bytes([wire[self.parsed], wire[self.parsed + 1]]);
            let kind = h >> 14;
            if kind == 1 {
                if wire.len() < self.parsed + 4 {
                    break;
                }
                let n = u16::from_le_bytes([wire[self.parsed + 2], wire[self.parsed + 3]]) as usize;
                if wire.len() < self.parsed + 4 + n {
                    break;
                }
                self.data.push((self.parsed + 4, n));
                self.parsed += 4 + n;
            } else {
                self.parsed += 2;
            }
        }
        let read = read as usize;
        let mut total = 0u64;
        for (start, len) in &self.data {
            if read <= *start {
                break;
            }
            total += (read - start).min(*len) as u64;
        }
        total
    }
}

fn check(hist: &SharedHist<Ev>, limits: &BTreeMap<(u64, usize), (u32, u32)>) {
    let events = hist.lock().unwrap().events.clone();
    struct Use {
        side: usize,
        cap: u64,
        connect: bool,
        peer: Option<u64>,
        eos: Option<(u64, u64)>,
        wrote: Option<u64>,
        closed_at: Option<u64>,
    }
    let mut uses: BTreeMap<u64, Use> = BTreeMap::new();
    let mut held: BTreeMap<(usize, u64, bool), i64> = BTreeMap::new();
    let mut halves_dropped: BTreeMap<u64, u32> = BTreeMap::new();
    for (no, e) in &events {
        match e {
            Ev::Open { side, cap, connect, uid } => {
                uses.insert(*uid, Use { side: *side, cap: *cap, connect: *connect, peer: None, eos: None, wrote: None, closed_at: None });
                let h = held.entry((*side, *cap, *connect)).or_default();
                *h += 1;
                // The connecting side of this (cap, direction) is `side` if connect, else the other.
                let c_side = if *connect { *side } else { 1 - *side };
                let (cm, am) = limits.get(&(*cap, c_side)).copied().unwrap_or((0, 0));
                let lim = cm.min(am) as i64;
                if *h > lim {
                    hist.violation("C14", "too_many_open_streams", format!("event {no}: side {side} holds {h} streams of capability {cap} ({}), limits are connect {cm} / accept {am}", if *connect { "connect" } else { "accept" }));
                }
            }
            Ev::Released { .. } => {}
            Ev::ReadDropped { uid } | Ev::WriteClosed { uid } => {
                if let Ev::WriteClosed { uid } = e {
                    if let Some(u) = uses.get_mut(uid) {
                        u.closed_at = Some(*no);
                    }
                }
                let both = {
                    let d = halves_dropped.entry(*uid).or_insert(0u32);
                    *d += 1;
                    *d == 2
                };
                if both {
                    if let Some(u) = uses.get(uid) {
                        *held.entry((u.side, u.cap, u.connect)).or_default() -= 1;
                    }
                }
            }
            Ev::WriteDone { uid, bytes } => {
                if let Some(u) = uses.get_mut(uid) {
                    u.wrote = Some(*bytes);
                }
            }
            Ev::ReadPeer { uid, peer_uid } => {
                if let Some(u) = uses.get_mut(uid) {
                    u.peer = Some(*peer_uid);
                }
            }
            Ev::ReadEos { uid, bytes } => {
                if let Some(u) = uses.get_mut(uid) {
                    u.eos = Some((*no, *bytes));
                }
            }
            Ev::Corrupt { uid, detail } => {
                hist.violation("C14", "stream_data_corrupted", format!("use {uid}: {detail}"));
            }
            Ev::ReadAbandoned { .. } => {}
        }
    }
    let mut read_by: BTreeMap<u64, u64> = BTreeMap::new();
    for (uid, u) in &uses {
        let Some(p) = u.peer else { continue };
        let Some(v) = uses.get(&p) else {
            hist.violation("C14", "data_from_unknown_stream", format!("use {uid} read the id {p} which no stream use wrote"));
            continue;
        };
        if v.side == u.side || v.cap != u.cap || v.connect == u.connect {
            hist.violation(
                "C14",
                "streams_crossed",
                format!("use {uid} (side {}, capability {}, {}) received the data of use {p} (side {}, capability {}, {})", u.side, u.cap, if u.connect { "connect" } else { "accept" }, v.side, v.cap, if v.connect { "connect" } else { "accept" }),
            );
        }
        if let Some(other) = read_by.insert(p, *uid) {
            hist.violation("C14", "stream_delivered_twice", format!("the data of use {p} was received by uses {other} and {uid}"));
        }
        if let Some(q) = v.peer {
            if q != *uid {
                hist.violation("C14", "streams_not_paired", format!("use {uid} reads from use {p}, but use {p} reads from use {q}"));
            }
        }
        if let Some((at, bytes)) = u.eos {
            match v.closed_at {
                Some(c) if c < at => {
                    if let Some(w) = v.wrote {
                        if w != bytes {
                            hist.violation("C14", "stream_data_incomplete", format!("use {uid} read {bytes} bytes up to end-of-stream, its counterpart {p} wrote {w}"));
                        }
                    }
                }
                _ => hist.violation("C14", "premature_end_of_stream", format!("use {uid} saw end-of-stream at event {at} before its counterpart {p} closed its write half")),
            }
        }
    }
}
