//! C14 (non-cooperative peer): a raw peer completes the mux handshake and then floods control
//! frames (OPEN / CLOSE) on a stream the victim's application never accepts.  Every frame the
//! multiplexer has pulled from the transport but nobody consumed must hold one of the
//! `read_frame_count` permits, so the number of bytes pulled is bounded.
use std::rc::Rc;

use rand::Rng;
use serde_json::json;
use tokio::io::AsyncWriteExt;
use zksync_concurrency::{ctx, limiter, oneshot, scope, time, verif::tokio_shim as gtokio};
use zksync_consensus_network::verif::mux;

use crate::{
    cli::CaseResult,
    kit::{self, pipe::{self, PipeCfg}, proto::{field_bytes, field_varint}, Sched},
    prim::{finish, new_hist, Director, HistExt, SharedHist},
};

#[derive(Debug, Clone)]
pub enum Ev {
    Note(String),
}

pub async fn run(seed: u64, sched: Rc<Sched>, keep_log: bool) -> (CaseResult, Vec<String>) {
    let mut rng = kit::stream(seed, "muxflood");
    let hist: SharedHist<Ev> = new_hist(keep_log);
    let clock = ctx::ManualClock::new();
    let (pa, pb) = pipe::pair(seed, "flood", PipeCfg::random(&mut rng), PipeCfg::benign());
    let victim_rx = pa.tx.clone(); // what the victim pulls = what the peer (pa) sends
    let frame_count = [1u64, 2, 10, 100][rng.gen_range(0..4)];
    let nflood = rng.gen_range(200..6000usize);
    hist.note(format!("flood: read_frame_count={frame_count}, {nflood} control frames, peer->victim pipe {:?}", pa.tx.lock().unwrap().cfg));
    // The victim accepts capability 0 (2 streams) but its application never calls accept;
    // it also connects on capability 1, which the peer does not support.
    let (kill, kill_recv) = oneshot::channel::<()>();
    let clock_v = clock.clone();
    let hist_v = hist.clone();
    let victim = gtokio::spawn(async move {
        let r = ctx::test_root(&clock_v);
        let _: Result<(), ()> = scope::run!(&r, |ctx, s| async move {
            let a = mux::StreamQueue::new(ctx, 2, limiter::Rate::INF);
            let c = mux::StreamQueue::new(ctx, 2, limiter::Rate::INF);
            let m = mux::Mux::new(mux::Config::new(16, 64, frame_count, 16)).accept(0, &a).connect(1, &c);
            s.spawn_bg(async move {
                let e = m.run(ctx, pb).await;
                hist_v.note(format!("victim mux ended: {e:?}"));
                Ok(())
            });
            let _ = kill_recv.recv_or_disconnected(ctx).await;
            Ok(())
        })
        .await;
    });
    // Raw peer: handshake (we "connect" on capability 0 with 2 streams), then the flood.
    let mut hs = vec![];
    let mut cap = vec![];
    field_varint(1, 0, &mut cap);
    field_varint(2, 2, &mut cap);
    field_bytes(6, &cap, &mut hs); // connect
    let handshake = kit::proto::framed(&hs);
    let hs_len = handshake.len() as u64;
    let kinds: Vec<u16> = (0..nflood).map(|i| if i == 0 { 0 } else { [0u16, 2 << 14][rng.gen_range(0..2)] }).collect();
    let id = rng.gen_range(0..2u16);
    let clock_p = clock.clone();
    let peer = gtokio::spawn(async move {
        let r = ctx::test_root(&clock_p);
        let mut pa = pa;
        let mut out = handshake;
        for k in kinds {
            // Frames sent by the connecting side carry StreamKind::CONNECT.
            out.extend((k | (1 << 13) | id).to_le_bytes());
        }
        let _ = pa.write_all(&out).await;
        let _ = r.sleep(time::Duration::seconds(30)).await;
    });
    let mut d = Director::new(seed, sched.clone(), clock.clone());
    d.tick_pct = 2;
    d.tick_sizes = vec![1_000_000, 500_000_000];
    d.max_steps = 300_000;
    {
        let rx = victim_rx.clone();
        d.progress = Some(Box::new(move || rx.lock().unwrap().stats.read));
    }
    let _ = d.drive(|| peer.is_finished(), |_| {}).await;
    let pulled = victim_rx.lock().unwrap().stats.read;
    let pulled_frames = pulled.saturating_sub(hs_len) / 2;
    // 1 OPEN consumed by the waiting reusable stream + frame_count held + 1 header read ahead.
    let bound = frame_count + 3;
    if pulled_frames > bound {
        // A bound of the multiplexer (C14) and, seen from a hostile peer, unbounded buffering of
        // network input (C10).
        for p in ["C14", "C10"] {
            hist.violation(
                p,
                "read_frame_count_limit_exceeded",
                format!("the multiplexer pulled {pulled_frames} control frames nobody consumes, read_frame_count is {frame_count}"),
            );
        }
    }
    if pulled_frames >= frame_count {
        hist.probe("frame_count_limit_reached");
    }
    let _ = kill.send(());
    d.tick_sizes = vec![40_000_000_000];
    let _ = d.drive(|| victim.is_finished() && peer.is_finished(), |_| {}).await;
    d.drain().await;
    let he = if sched.live() != 0 && hist.lock().unwrap().violations.is_empty() { Some("tasks alive".to_string()) } else { None };
    finish(seed, "muxflood", &sched, &hist, d.sim_ns, true, vec![kit::mix(frame_count, pulled_frames.min(200))],
        json!({"read_frame_count": frame_count, "control_frames_sent": nflood, "frames_pulled": pulled_frames}), he)
}
