//! C15 (per-RPC-stream half): a real `rpc::Service` server (the real ping server: burst 2, 1/s,
//! in-flight 1; a consensus server with a harness handler: in-flight 3, configurable rate) over a
//! `SimPipe`, against (a) the real rpc client and (b) a greedy client built from the raw
//! multiplexer which announces more streams than the server allows, uses no rate limit of its own
//! and fires calls as fast as the protocol lets it.
//!
//! Oracles: concurrent consensus handlers <= INFLIGHT at every event; OPEN frames the server
//! sends per RPC (read off the wire with simulated timestamps) obey burst + T/refresh + 1 in
//! every window; handler starts obey the same bound plus the INFLIGHT streams that may have been
//! opened earlier.
use std::{rc::Rc, sync::{Arc, Mutex}};

use rand::Rng;
use serde_json::json;
use zksync_concurrency::{ctx, limiter, oneshot, scope, time, verif::tokio_shim as gtokio};
use zksync_consensus_network::verif::{mux, rpc};
use zksync_consensus_roles::validator::{self, v2};

use crate::{
    cli::CaseResult,
    kit::{self, pipe::{self, PipeCfg}, Sched},
    prim::{finish, new_hist, Director, HistExt, SharedHist},
};

#[derive(Debug, Clone)]
pub enum Ev {
    HandlerStart { at_ns: i128, concurrent: u32 },
    HandlerEnd,
    CallDone { ok: bool },
}

pub async fn run(seed: u64, sched: Rc<Sched>, keep_log: bool) -> (CaseResult, Vec<String>) {
    let mut rng = kit::stream(seed, "rpc");
    let hist: SharedHist<Ev> = new_hist(keep_log);
    let clock = ctx::ManualClock::new();
    let t0 = clock.now();
    let (pa, pb) = pipe::pair(seed, "rpc", PipeCfg::benign(), PipeCfg::benign());
    {
        let mut d = pb.tx.lock().unwrap();
        d.keep_wire = true;
        d.clock = Some((clock.clone(), t0));
    }
    let server_wire = pb.tx.clone();
    let burst = [1usize, 2, 3, 10][rng.gen_range(0..4)];
    let refresh_ms: i64 = [1i64, 20, 300, 1000][rng.gen_range(0..4)];
    let inf = rng.gen_range(0..100) < 10;
    let rate = if inf { limiter::Rate::INF } else { limiter::Rate { burst, refresh: time::Duration::milliseconds(refresh_ms) } };
    let greedy = rng.gen_range(0..100) < 65;
    let ncalls = rng.gen_range(3..40usize);
    hist.note(format!("rpc: consensus rate burst={burst} refresh={refresh_ms}ms inf={inf} greedy_client={greedy} calls={ncalls}"));
    let key: validator::SecretKey = rng.gen();
    let msg = key.sign_msg(validator::ConsensusMsg::V2(v2::ChonkyMsg::ReplicaTimeout(v2::ReplicaTimeout {
        view: v2::View { genesis: rng.gen(), epoch: validator::EpochNumber(0), number: validator::ViewNumber(1) },
        high_vote: None,
        high_qc: None,
    })));
    // Server.
    let concurrent = Arc::new(Mutex::new(0u32));
    let hold_ms: Vec<i64> = (0..8).map(|_| [0i64, 1, 50, 500, 3000][rng.gen_range(0..5)]).collect();
    let handler: rpc::ConsensusHandler = {
        let (hist, clock, concurrent) = (hist.clone(), clock.clone(), concurrent.clone());
        let ctr = Arc::new(Mutex::new(0usize));
        Arc::new(move |ctx: &ctx::Ctx, _m| {
            let (hist, clock, concurrent, ctr, hold_ms) = (hist.clone(), clock.clone(), concurrent.clone(), ctr.clone(), hold_ms.clone());
            Box::pin(async move {
                let c = {
                    let mut c = concurrent.lock().unwrap();
                    *c += 1;
                    *c
                };
                hist.rec(Ev::HandlerStart { at_ns: (clock.now() - t0).whole_nanoseconds(), concurrent: c });
                let k = {
                    let mut k = ctr.lock().unwrap();
                    *k += 1;
                    *k
                };
                // The real handler waits for the replica's ack here.
                let h = hold_ms[k % hold_ms.len()];
                let r = if h > 0 { ctx.sleep(time::Duration::milliseconds(h)).await } else { Ok(()) };
                *concurrent.lock().unwrap() -= 1;
                hist.rec(Ev::HandlerEnd);
                r.map_err(|_| anyhow::anyhow!("canceled"))
            })
        })
    };
    let (kill_s, kill_s_recv) = oneshot::channel::<()>();
    let (kill_c, kill_c_recv) = oneshot::channel::<()>();
    let clock_s = clock.clone();
    let hist_s = hist.clone();
    let server = gtokio::spawn(async move {
        let r = ctx::test_root(&clock_s);
        let _: Result<(), ()> = scope::run!(&r, |ctx, s| async move {
            s.spawn_bg(async move {
                let e = rpc::run_server(ctx, pb, Some((handler, rate, 10_000))).await;
                hist_s.note(format!("server ended: {e:?}"));
                Ok(())
            });
            let _ = kill_s_recv.recv_or_disconnected(ctx).await;
            Ok(())
        })
        .await;
    });
    // Client.
    let done = Arc::new(Mutex::new(0usize));
    let clock_c = clock.clone();
    let (hist_c, done_c) = (hist.clone(), done.clone());
    let mut crng = kit::stream(seed, "rpc-client");
    let client = gtokio::spawn(async move {
        let r = ctx::test_root(&clock_c);
        let _: Result<(), ()> = scope::run!(&r, |ctx, s| async move {
            if !greedy {
                let msgs = vec![msg; ncalls];
                let (h2, d2) = (hist_c.clone(), done_c.clone());
                s.spawn_bg(async move {
                    let on_result: Arc<dyn Send + Sync + Fn(usize, bool)> = Arc::new(move |_, ok| {
                        h2.rec(Ev::CallDone { ok });
                        *d2.lock().unwrap() += 1;
                    });
                    let _ = rpc::run_client(ctx, pa, Some(time::Duration::seconds(2)), limiter::Rate::INF, msgs, on_result).await;
                    Ok(())
                });
            } else {
                // Greedy client from raw mux pieces: rpc clients live in the `accept` table.
                let cq = mux::StreamQueue::new(ctx, 10, limiter::Rate::INF);
                let pq = mux::StreamQueue::new(ctx, 4, limiter::Rate::INF);
                let m = mux::Mux::new(mux::Config::rpc_default())
                    .accept(rpc::capability_consensus(), &cq)
                    .accept(rpc::capability_ping(), &pq);
                s.spawn_bg(async move {
                    let _ = m.run(ctx, pa).await;
                    Ok(())
                });
                let req = rpc::encode_consensus_req(&msg);
                let workers = crng.gen_range(1..8usize);
                let per = ncalls.div_ceil(workers);
                for _ in 0..workers {
                    let (cq, req, h2, d2) = (cq.clone(), req.clone(), hist_c.clone(), done_c.clone());
                    let delay_ms = [0i64, 0, 5, 700][crng.gen_range(0..4)];
                    s.spawn_bg(async move {
                        for _ in 0..per {
                            let Ok(mut st) = cq.open(ctx).await else { break };
                            // An opened stream may be sat on before the request is sent.
                            if delay_ms > 0 && ctx.sleep(time::Duration::milliseconds(delay_ms)).await.is_err() {
                                break;
                            }
                            let mut ok = st.write.write_all(ctx, &(req.len() as u32).to_le_bytes()).await.is_ok();
                            ok = ok && st.write.write_all(ctx, &req).await.is_ok();
                            ok = ok && st.write.flush(ctx).await.is_ok();
                            drop(st.write);
                            let mut len = [0u8; 4];
                            ok = ok && st.read.read_exact(ctx, &mut len).await.is_ok_and(|n| n == 4);
                            h2.rec(Ev::CallDone { ok });
                            *d2.lock().unwrap() += 1;
                        }
                        Ok(())
                    });
                }
                // Ping as fast as the server lets us.
                let preq = rpc::encode_ping_req([7u8; 32]);
                s.spawn_bg(async move {
                    loop {
                        let Ok(mut st) = pq.open(ctx).await else { break };
                        let mut ok = st.write.write_all(ctx, &(preq.len() as u32).to_le_bytes()).await.is_ok();
                        ok = ok && st.write.write_all(ctx, &preq).await.is_ok();
                        ok = ok && st.write.flush(ctx).await.is_ok();
                        drop(st.write);
                        let mut buf = [0u8; 64];
                        if !ok || st.read.read_exact(ctx, &mut buf).await.is_err() {
                            break;
                        }
                    }
                    Ok(())
                });
            }
            let _ = kill_c_recv.recv_or_disconnected(ctx).await;
            Ok(())
        })
        .await;
    });
    let mut d = Director::new(seed, sched.clone(), clock.clone());
    d.tick_pct = rng.gen_range(2..20);
    d.tick_sizes = vec![1_000_000, 30_000_000, 400_000_000];
    d.max_steps = 600_000;
    {
        let (h, w) = (hist.clone(), server_wire.clone());
        d.progress = Some(Box::new(move || h.lock().unwrap().log.seq() + w.lock().unwrap().stats.written));
    }
    let conc = concurrent.clone();
    let inflight = rpc::inflight_consensus();
    let hist_i = hist.clone();
    let mut reported = false;
    let d2 = done.clone();
    let expect = if greedy { ncalls.div_ceil(1) } else { ncalls };
    let _ = d
        .drive(
            || *d2.lock().unwrap() >= expect,
            |_| {
                let c = *conc.lock().unwrap();
                if c > inflight && !reported {
                    reported = true;
                    hist_i.violation("C15", "too_many_concurrent_handlers", format!("{c} consensus requests are being served concurrently on one connection, INFLIGHT is {inflight}"));
                }
            },
        )
        .await;
    let _ = kill_c.send(());
    let _ = kill_s.send(());
    d.tick_sizes = vec![5_000_000_000];
    let _ = d.drive(|| server.is_finished() && client.is_finished(), |_| {}).await;
    d.drain().await;
    // --- oracles over the history and the wire ------------------------------------------------
    let events = hist.lock().unwrap().events.clone();
    let starts: Vec<i128> = events.iter().filter_map(|(_, e)| if let Ev::HandlerStart { at_ns, .. } = e { Some(*at_ns) } else { None }).collect();
    let refresh_ns = refresh_ms as i128 * 1_000_000;
    let window_check = |times: &[i128], b: i128, r: i128, slack: i128, what: &str, class: &str| {
        for i in 0..times.len() {
            for j in i..times.len() {
                let n = (j - i + 1) as i128;
                let t = times[j] - times[i];
                let allowed = b + t / r + 1 + slack;
                if n > allowed {
                    hist.violation("C15", class, format!("{n} {what} within {t} ns, bound is burst {b} + T/refresh {} + 1{} = {allowed}", t / r, if slack > 0 { format!(" + {slack} in-flight") } else { String::new() }));
                    return;
                }
            }
        }
    };
    if !inf {
        window_check(&starts, burst as i128, refresh_ns, inflight as i128, "consensus handler starts", "handler_rate_exceeded");
    }
    // OPEN frames sent by the server (stream kind CONNECT), per stream id range.
    let (opens_consensus, opens_ping) = server_opens(&server_wire.lock().unwrap(), if greedy { 3 } else { 3 });
    if !inf {
        window_check(&opens_consensus, burst as i128, refresh_ns, 0, "OPEN frames for the consensus RPC", "open_rate_exceeded");
    }
    let pr = rpc::ping_rate();
    window_check(&opens_ping, pr.burst as i128, pr.refresh.whole_nanoseconds(), 0, "OPEN frames for the ping RPC", "open_rate_exceeded");
    if starts.len() >= 2 {
        hist.probe("several_handler_starts");
    }
    if opens_ping.len() >= 3 {
        hist.probe("ping_rate_limited");
    }
    let states = vec![kit::mix(burst as u64, kit::mix(refresh_ms as u64, kit::mix(greedy as u64, starts.len().min(40) as u64)))];
    let he = if sched.live() != 0 && hist.lock().unwrap().violations.is_empty() { Some("tasks alive".to_string()) } else { None };
    finish(seed, "rpc", &sched, &hist, d.sim_ns, starts.len() >= 2, states,
        json!({"burst": burst, "refresh_ms": refresh_ms, "inf": inf, "greedy_client": greedy, "calls": ncalls, "handler_starts": starts.len(), "opens_consensus": opens_consensus.len(), "opens_ping": opens_ping.len()}), he)
}

/// Times (simulated ns) of the OPEN frames the server sent, split into consensus streams
/// (ids 0..n_consensus: capability 0 comes first) and ping streams.
fn server_opens(dir: &pipe::Dir, n_consensus: u16) -> (Vec<i128>, Vec<i128>) {
    let wire = &dir.wire;
    let time_at = |off: usize| -> i128 {
        // marks are (offset at which a write started, time); find the last mark <= off
        match dir.marks.binary_search_by(|m| m.0.cmp(&(off as u64))) {
            Ok(i) => dir.marks[i].1,
            Err(0) => 0,
            Err(i) => dir.marks[i - 1].1,
        }
    };
    let mut i = 0usize;
    if wire.len() < 4 {
        return (vec![], vec![]);
    }
    let n = u32::from_le_bytes(wire[0..4].try_into().unwrap()) as usize;
    i += 4 + n;
    let (mut c, mut p) = (vec![], vec![]);
    while i + 2 <= wire.len() {
        let h = u16::from_le_bytes([wire[i], wire[i + 1]]);
        let kind = h >> 14;
        let id = h & 0x1fff;
        match kind {
            0 => {
                if id < n_consensus { c.push(time_at(i)) } else { p.push(time_at(i)) }
                i += 2;
            }
            1 => {
                if i + 4 > wire.len() {
                    break;
                }
                let n = u16::from_le_bytes([wire[i + 2], wire[i + 3]]) as usize;
                i += 4 + n;
            }
            _ => i += 2,
        }
    }
    (c, p)
}
