//! C13: the real `noise::Stream<SimPipe>` (via hook H4).
//!
//! `benign`: writer ops of all sizes (0, 1, ..., 65519, 65520, 65521, 131040, ~1 MB), flushes,
//! shutdown, both directions at once, over pipes which fragment / return Pending / exert
//! back-pressure.  Oracle: bytes read = prefix of bytes accepted by `poll_write`; equal to
//! everything flushed once drained; EOF exactly at the end after shutdown; no frame on the wire
//! exceeds 2 + 65535 bytes.
//!
//! `tamper`: a relay between two pipes parses ciphertext frames and applies one single-point
//! tampering; for a base run *every* (frame x tamper kind) is enumerated.  Oracle: the reader's
//! output is a prefix of the written stream followed by an error or EOF - also on every
//! subsequent read.
use std::{rc::Rc, sync::{Arc, Mutex}};

use rand::Rng;
use serde_json::json;
use tokio::io::{AsyncReadExt, AsyncWriteExt};
use zksync_concurrency::{ctx, verif::{sched_point, tokio_shim as gtokio}};
use zksync_consensus_network::verif::noise::Stream;

use crate::{
    cli::CaseResult,
    kit::{self, pipe::{self, PipeCfg, SimPipe}, Sched},
    prim::{finish, new_hist, Director, DriveEnd, HistExt, SharedHist},
};

#[derive(Debug, Clone)]
pub enum Ev {
    Note(String),
}

/// Deterministic content: byte at absolute offset `i` of direction `dir`.
fn byte_at(dir: u8, i: u64) -> u8 {
    let x = i.wrapping_mul(0x9E3779B97F4A7C15) ^ (dir as u64) << 56;
    (x >> 32) as u8 ^ (i as u8)
}

fn fill(dir: u8, from: u64, len: usize) -> Vec<u8> {
    (0..len as u64).map(|k| byte_at(dir, from + k)).collect()
}

#[derive(Default)]
struct DirState {
    accepted: u64,
    flushed: u64,
    received: u64,
    shutdown_done: bool,
    reader_eof: bool,
    reader_err: Option<String>,
    writer_err: Option<String>,
    corrupt: Option<String>,
}

const SIZES: &[usize] = &[0, 1, 2, 15, 16, 17, 100, 4096, 65518, 65519, 65520, 65521, 65535, 65536, 131_040, 131_041, 1_000_003];

async fn writer_task<W: tokio::io::AsyncWrite + Unpin>(mut w: W, dir: u8, ops: Vec<(u8, usize)>, st: Arc<Mutex<DirState>>, end_with_shutdown: bool, release: Arc<tokio::sync::Notify>) {
    for (op, n) in ops {
        match op {
            // write_all
            0 => {
                let from = st.lock().unwrap().accepted;
                let data = fill(dir, from, n);
                let mut off = 0;
                while off < data.len() {
                    match w.write(&data[off..]).await {
                        Ok(0) => {
                            st.lock().unwrap().writer_err = Some("write returned 0".into());
                            return;
                        }
                        Ok(k) => {
                            off += k;
                            st.lock().unwrap().accepted += k as u64;
                        }
                        Err(e) => {
                            st.lock().unwrap().writer_err = Some(e.to_string());
                            return;
                        }
                    }
                }
            }
            // flush
            1 => {
                let upto = st.lock().unwrap().accepted;
                if let Err(e) = w.flush().await {
                    st.lock().unwrap().writer_err = Some(e.to_string());
                    return;
                }
                let mut s = st.lock().unwrap();
                s.flushed = s.flushed.max(upto);
            }
            _ => sched_point().await,
        }
    }
    if end_with_shutdown {
        let upto = st.lock().unwrap().accepted;
        match w.shutdown().await {
            Ok(()) => {
                let mut s = st.lock().unwrap();
                s.flushed = upto;
                s.shutdown_done = true;
            }
            Err(e) => st.lock().unwrap().writer_err = Some(e.to_string()),
        }
    }
    // Keep the write half open until the director has evaluated the oracles at quiescence, then
    // close it so that every task of the run winds down.
    if !end_with_shutdown {
        release.notified().await;
        let _ = w.shutdown().await;
    }
}

async fn reader_task<R: tokio::io::AsyncRead + Unpin>(mut r: R, dir: u8, bufsizes: Vec<usize>, st: Arc<Mutex<DirState>>, reads_after_end: u32, lag: u64) {
    // A lagging reader: it starts only when `lag` bytes have been flushed towards it (a backlog of
    // many coalesced frames).
    while st.lock().unwrap().flushed < lag && st.lock().unwrap().writer_err.is_none() {
        sched_point().await;
    }
    let mut k = 0;
    let mut after = 0;
    loop {
        let n = bufsizes[k % bufsizes.len()];
        k += 1;
        let mut buf = vec![0u8; n.max(1)];
        match r.read(&mut buf).await {
            Ok(0) => {
                st.lock().unwrap().reader_eof = true;
                after += 1;
            }
            Ok(m) => {
                let mut s = st.lock().unwrap();
                let from = s.received;
                if s.reader_eof || s.reader_err.is_some() {
                    s.corrupt.get_or_insert(format!("{m} bytes delivered after the stream had ended / failed"));
                }
                for (i, b) in buf[..m].iter().enumerate() {
                    if *b != byte_at(dir, from + i as u64) {
                        s.corrupt.get_or_insert(format!("byte at offset {} differs from what was written", from + i as u64));
                        break;
                    }
                }
                s.received += m as u64;
            }
            Err(e) => {
                st.lock().unwrap().reader_err.get_or_insert(e.to_string());
                after += 1;
            }
        }
        if after > reads_after_end {
            return;
        }
    }
}

/// Parses length-prefixed frames (handshake messages and transport messages alike).
fn frames(wire: &[u8]) -> Vec<(usize, usize)> {
    let mut out = vec![];
    let mut i = 0;
    while i + 2 <= wire.len() {
        let n = u16::from_le_bytes([wire[i], wire[i + 1]]) as usize;
        if i + 2 + n > wire.len() {
            break;
        }
        out.push((i, 2 + n));
        i += 2 + n;
    }
    out
}

pub async fn run_benign(seed: u64, sched: Rc<Sched>, keep_log: bool) -> (CaseResult, Vec<String>) {
    let mut rng = kit::stream(seed, "noise");
    let hist: SharedHist<Ev> = new_hist(keep_log);
    let clock = ctx::ManualClock::new();
    let root = Arc::new(ctx::test_root(&clock));
    let cfg_ab = PipeCfg::random(&mut rng);
    let cfg_ba = PipeCfg::random(&mut rng);
    hist.note(format!("pipes: a->b {cfg_ab:?} ; b->a {cfg_ba:?}"));
    let (pa, pb) = pipe::pair(seed, "noise", cfg_ab.clone(), cfg_ba.clone());
    pa.tx.lock().unwrap().keep_wire = true;
    pb.tx.lock().unwrap().keep_wire = true;
    let (wire_ab, wire_ba) = (pa.tx.clone(), pb.tx.clone());
    // Scripts.
    let tiny = [cfg_ab.max_write, cfg_ab.max_read, cfg_ab.capacity, cfg_ba.max_write, cfg_ba.max_read, cfg_ba.capacity].iter().any(|x| *x < 64);
    let script = |rng: &mut crate::kit::SimRng| -> Vec<(u8, usize)> {
        let big = !tiny && rng.gen_range(0..100) < 15;
        (0..rng.gen_range(1..14))
            .map(|_| match rng.gen_range(0..100) {
                0..=59 => (0u8, if big || rng.gen_range(0..100) < 25 {
                    let s = SIZES[rng.gen_range(0..SIZES.len())];
                    if tiny { s.min(66_000) } else { s }
                } else { rng.gen_range(0..300) }),
                60..=84 => (1u8, 0),
                _ => (2u8, 0),
            })
            .collect()
    };
    let mut ops_a = script(&mut rng);
    let ops_b = script(&mut rng);
    // Backlog mode (direction a->b): many small messages, each flushed, pile up in a roomy pipe
    // before the reader starts: the reader then meets dozens of coalesced frames per transport
    // read, at every alignment relative to its frame buffer.
    let mut lag_ab = 0u64;
    let mut cfg_ab = cfg_ab;
    if rng.gen_range(0..100) < 12 {
        // Message sizes: random, or such that the frame size (payload + 2 + 16) divides a number
        // next to the capacity of the reader's frame buffer (boundary alignment).
        let k = if rng.gen_bool(0.5) {
            rng.gen_range(16..300usize)
        } else {
            const NEAR: [usize; 5] = [65536, 65537, 65538, 65539, 65540];
            let fs: Vec<usize> = (34..400usize).filter(|f| NEAR.iter().any(|n| n % f == 0)).collect();
            fs[rng.gen_range(0..fs.len())] - 18
        };
        let total = rng.gen_range(140_000..330_000usize);
        ops_a = (0..total / k).flat_map(|_| [(0u8, k), (1u8, 0)]).collect();
        lag_ab = (total / k * k) as u64;
        cfg_ab.capacity = 1 << 20;
        cfg_ab.max_write = cfg_ab.max_write.max(64);
        if rng.gen_bool(0.5) {
            cfg_ab.max_read = usize::MAX;
        }
        pa.tx.lock().unwrap().cfg = cfg_ab.clone();
        hist.probe("backlog_of_small_frames");
        hist.note(format!("backlog mode: {} messages of {k} bytes before the reader starts", total / k));
    }
    let bufs = |rng: &mut crate::kit::SimRng| -> Vec<usize> {
        (0..4).map(|_| [1usize, 2, 17, 1000, 65520, 70_000, 300_000][rng.gen_range(0..7)]).collect()
    };
    let (bufs_a, bufs_b) = (bufs(&mut rng), bufs(&mut rng));
    let shutdown_a = rng.gen_range(0..100) < 80;
    let shutdown_b = rng.gen_range(0..100) < 80;
    let st_ab: Arc<Mutex<DirState>> = Arc::default();
    let st_ba: Arc<Mutex<DirState>> = Arc::default();
    let release = Arc::new(tokio::sync::Notify::new());
    let mk = |pipe: SimPipe, server: bool, my_dir: u8, ops: Vec<(u8, usize)>, bufs: Vec<usize>, st_w: Arc<Mutex<DirState>>, st_r: Arc<Mutex<DirState>>, shutdown: bool, root: Arc<ctx::Ctx>, hist: SharedHist<Ev>, lag: u64| {
        let release = release.clone();
        gtokio::spawn(async move {
            let s = if server { Stream::server_handshake(&root, pipe).await } else { Stream::client_handshake(&root, pipe).await };
            let s = match s {
                Ok(s) => s,
                Err(e) => {
                    hist.violation("C13", "handshake_failed_on_benign_transport", format!("{e:?}"));
                    return;
                }
            };
            let (r, w) = tokio::io::split(s);
            let wt = gtokio::spawn(writer_task(w, my_dir, ops, st_w, shutdown, release));
            let rt = gtokio::spawn(reader_task(r, 1 - my_dir, bufs, st_r, 2, lag));
            let _ = wt.await;
            let _ = rt.await;
        })
    };
    let ha = mk(pa, false, 0, ops_a.clone(), bufs_a, st_ab.clone(), st_ba.clone(), shutdown_a, root.clone(), hist.clone(), 0);
    let hb = mk(pb, true, 1, ops_b.clone(), bufs_b, st_ba.clone(), st_ab.clone(), shutdown_b, root.clone(), hist.clone(), lag_ab);
    let mut d = Director::new(seed, sched.clone(), clock.clone());
    d.tick_pct = 0;
    d.max_steps = 3_000_000;
    // A reader whose writer never shuts down would wait forever: the run ends when both writers
    // are done and both readers have drained everything that was flushed.
    let (a2, b2) = (st_ab.clone(), st_ba.clone());
    let end = d
        .drive(
            || {
                let done_dir = |s: &DirState, shutdown: bool| {
                    if s.reader_err.is_some() || s.writer_err.is_some() || s.corrupt.is_some() {
                        return true;
                    }
                    if shutdown { s.reader_eof } else { false }
                };
                (ha.is_finished() && hb.is_finished())
                    || (done_dir(&a2.lock().unwrap(), shutdown_a) && done_dir(&b2.lock().unwrap(), shutdown_b))
            },
            |_| {},
        )
        .await;
    // Without shutdown the run is over at quiescence (DriveEnd::Stuck): that is expected.
    let quiescent = matches!(end, DriveEnd::Stuck | DriveEnd::Done);
    let mut harness_error: Option<String> = None;
    if !quiescent {
        // Three million task polls without the session coming to rest: on a transport which only
        // fragments and delays, a writer or reader is spinning or the two are stuck in a loop.
        let (a, b) = (st_ab.lock().unwrap(), st_ba.lock().unwrap());
        hist.violation(
            "C13",
            "session_never_comes_to_rest",
            format!(
                "after {} scheduler steps the session is still busy: a->b accepted {} flushed {} delivered {}; b->a accepted {} flushed {} delivered {}",
                d.max_steps, a.accepted, a.flushed, a.received, b.accepted, b.flushed, b.received
            ),
        );
    }
    // Oracles (evaluated on the state at quiescence; afterwards the writers are released so that
    // all tasks end).
    let eval = |hist: &SharedHist<Ev>| {
    for (name, st, shutdown, wire) in [("a->b", &st_ab, shutdown_a, &wire_ab), ("b->a", &st_ba, shutdown_b, &wire_ba)] {
        let s = st.lock().unwrap();
        if let Some(c) = &s.corrupt {
            hist.violation("C13", "plaintext_corrupted", format!("{name}: {c}"));
        }
        if s.received > s.accepted {
            hist.violation("C13", "more_read_than_written", format!("{name}: {} bytes read, {} accepted", s.received, s.accepted));
        }
        if let Some(e) = &s.reader_err {
            hist.violation("C13", "reader_failed_on_benign_transport", format!("{name}: {e}"));
        }
        if let Some(e) = &s.writer_err {
            hist.violation("C13", "writer_failed_on_benign_transport", format!("{name}: {e}"));
        }
        if quiescent && s.corrupt.is_none() && s.reader_err.is_none() && s.writer_err.is_none() {
            if s.received < s.flushed {
                hist.violation("C13", "flushed_bytes_not_delivered", format!("{name}: {} bytes flushed, only {} delivered at quiescence", s.flushed, s.received));
            }
            if shutdown && s.shutdown_done && (!s.reader_eof || s.received != s.accepted) {
                hist.violation("C13", "no_clean_eof_after_shutdown", format!("{name}: writer shut down after {} bytes, reader got {} bytes, eof={}", s.accepted, s.received, s.reader_eof));
            }
            if !shutdown && s.reader_eof {
                hist.violation("C13", "spurious_eof", format!("{name}: reader saw end-of-stream although the writer never shut down"));
            }
        }
        let w = wire.lock().unwrap();
        let fr = frames(&w.wire);
        if let Some((_, len)) = fr.iter().find(|(_, l)| *l > 2 + 65535) {
            hist.violation("C13", "oversized_frame", format!("{name}: frame of {len} bytes on the wire"));
        }
        let consumed: usize = fr.iter().map(|x| x.1).sum();
        if quiescent && consumed != w.wire.len() && s.writer_err.is_none() {
            hist.violation("C13", "partial_frame_left_on_wire", format!("{name}: {} bytes on the wire, only {consumed} form complete frames at quiescence", w.wire.len()));
        }
        if fr.iter().any(|(_, l)| *l == 2 + 65535) {
            hist.probe("full_size_frame");
        }
        if w.stats.short_reads > 0 && w.stats.short_writes > 0 {
            hist.probe("fragmented_both_ways");
        }
        if w.stats.backpressure > 0 {
            hist.fault("backpressure");
        }
        if w.stats.spurious_pending > 0 {
            hist.fault("spurious_pending");
        }
        if w.stats.short_reads > 0 {
            hist.fault("short_read");
        }
        if w.stats.short_writes > 0 {
            hist.fault("short_write");
        }
    }
    };
    eval(&hist);
    release.notify_waiters();
    release.notify_one();
    release.notify_one();
    let _ = d.drive(|| ha.is_finished() && hb.is_finished(), |_| {}).await;
    d.drain().await;
    if sched.live() != 0 && hist.lock().unwrap().violations.is_empty() {
        // The writers have been released (and shut down where the script says so), the transport
        // only fragments and delays, nothing is runnable and time does not help: a reader or
        // writer of the session is parked for ever although its data is there - a lost wake-up.
        // (On the unchanged tree this has never occurred; it used to be reported as a harness
        // error, which hid seeded change C13-8.)
        let (a, b) = (st_ab.lock().unwrap(), st_ba.lock().unwrap());
        hist.violation(
            "C13",
            "session_task_parked_for_ever",
            format!(
                "{} task(s) of the session never finish on a benign transport: a->b accepted {} flushed {} delivered {} eof {}; b->a accepted {} flushed {} delivered {} eof {}",
                sched.live(), a.accepted, a.flushed, a.received, a.reader_eof, b.accepted, b.flushed, b.received, b.reader_eof
            ),
        );
    }
    let total = st_ab.lock().unwrap().accepted + st_ba.lock().unwrap().accepted;
    let states = vec![kit::mix(ops_a.len() as u64, kit::mix(ops_b.len() as u64, total.min(1 << 20) >> 10))];
    finish(seed, "noise", &sched, &hist, d.sim_ns, total > 0, states,
        json!({"ops_a": ops_a.len(), "ops_b": ops_b.len(), "bytes_written": total, "shutdown": [shutdown_a, shutdown_b]}), harness_error)
}

pub const TAMPER_KINDS: &[&str] = &["flip_len", "flip_body", "flip_tag", "truncate_inside", "truncate_at_boundary", "drop", "duplicate", "swap_next", "replay_earlier", "splice_other_session", "zero_length_frame_inserted"];

/// One tampering run: unidirectional a -> relay -> b.  `target` = index among the transport
/// (post-handshake) frames of direction a->b.
pub async fn run_tamper(seed: u64, sched: Rc<Sched>, keep_log: bool, target: usize, kind: &'static str) -> (CaseResult, Vec<String>, usize) {
    let mut rng = kit::stream(seed, "noise-tamper");
    let hist: SharedHist<Ev> = new_hist(keep_log);
    let clock = ctx::ManualClock::new();
    let root = Arc::new(ctx::test_root(&clock));
    let nchunks = rng.gen_range(3..9usize);
    let chunks: Vec<usize> = (0..nchunks).map(|_| if rng.gen_range(0..100) < 15 { 70_000 } else { rng.gen_range(1..400) }).collect();
    // a <-> relay over pipe 1, relay <-> b over pipe 2.
    let (pa, r1) = pipe::pair(seed, "t1", PipeCfg::random(&mut rng), PipeCfg::benign());
    let (r2, pb) = pipe::pair(seed, "t2", PipeCfg::random(&mut rng), PipeCfg::benign());
    // Another session (for splicing): its ciphertext frames.
    let st: Arc<Mutex<DirState>> = Arc::default();
    let total: usize = chunks.iter().sum();
    let writer = {
        let (root, st, chunks) = (root.clone(), st.clone(), chunks.clone());
        gtokio::spawn(async move {
            let Ok(s) = Stream::client_handshake(&root, pa).await else { return };
            let (_r, w) = tokio::io::split(s);
            let ops: Vec<(u8, usize)> = chunks.iter().flat_map(|n| [(0u8, *n), (1u8, 0)]).collect();
            writer_task(w, 0, ops, st, true, Arc::new(tokio::sync::Notify::new())).await;
        })
    };
    let reader = {
        let (root, st) = (root.clone(), st.clone());
        gtokio::spawn(async move {
            let Ok(s) = Stream::server_handshake(&root, pb).await else {
                st.lock().unwrap().reader_err = Some("handshake failed".into());
                return;
            };
            let (r, _w) = tokio::io::split(s);
            reader_task(r, 0, vec![1000, 17, 70_000], st, 3, 0).await;
        })
    };
    // The relay: forwards b->a untouched; a->b frame by frame with the tampering applied.
    let nframes: Arc<Mutex<usize>> = Arc::default();
    let nf2 = nframes.clone();
    let hist2 = hist.clone();
    let splice_seed = seed ^ 0xabc;
    let relay = gtokio::spawn(async move {
        let (mut r1r, mut r1w) = tokio::io::split(r1);
        let (mut r2r, mut r2w) = tokio::io::split(r2);
        let back = gtokio::spawn(async move {
            let mut buf = vec![0u8; 4096];
            loop {
                match r2r.read(&mut buf).await {
                    Ok(0) | Err(_) => {
                        let _ = r1w.shutdown().await;
                        return;
                    }
                    Ok(n) => {
                        if r1w.write_all(&buf[..n]).await.is_err() {
                            return;
                        }
                    }
                }
            }
        });
        let mut idx = 0usize; // frame index including the handshake message(s) of this direction
        let handshake_frames = 1; // NN: initiator sends one message
        let mut earlier: Vec<Vec<u8>> = vec![];
        let mut held: Option<Vec<u8>> = None;
        loop {
            let mut len = [0u8; 2];
            if r1r.read_exact(&mut len).await.is_err() {
                break;
            }
            let n = u16::from_le_bytes(len) as usize;
            let mut body = vec![0u8; n];
            if r1r.read_exact(&mut body).await.is_err() {
                break;
            }
            let mut frame = len.to_vec();
            frame.extend_from_slice(&body);
            let t = idx.checked_sub(handshake_frames);
            idx += 1;
            if let Some(t) = t {
                *nf2.lock().unwrap() = t + 1;
            }
            let mut out: Vec<Vec<u8>> = vec![];
            if let Some(h) = held.take() {
                // second half of a swap: current first, then the held one
                out.push(frame.clone());
                out.push(h);
            } else if t == Some(target) {
                hist2.fault(kind);
                match kind {
                    "flip_len" => {
                        frame[0] ^= 1;
                        out.push(frame.clone());
                    }
                    "flip_body" => {
                        let k = 2 + (n.saturating_sub(17)) / 2;
                        let k = k.min(frame.len() - 1);
                        frame[k] ^= 0x10;
                        out.push(frame.clone());
                    }
                    "flip_tag" => {
                        let l = frame.len();
                        frame[l - 1] ^= 0x80;
                        out.push(frame.clone());
                    }
                    "truncate_inside" => {
                        let _ = r2w.write_all(&frame[..frame.len() / 2 + 1]).await;
                        let _ = r2w.shutdown().await;
                        break;
                    }
                    "truncate_at_boundary" => {
                        let _ = r2w.shutdown().await;
                        break;
                    }
                    "drop" => {}
                    "duplicate" => {
                        out.push(frame.clone());
                        out.push(frame.clone());
                    }
                    "swap_next" => {
                        held = Some(frame.clone());
                    }
                    "replay_earlier" => {
                        out.push(frame.clone());
                        if let Some(e) = earlier.first() {
                            out.push(e.clone());
                        }
                    }
                    "splice_other_session" => {
                        // A frame of the same length encrypted in another session.
                        let mut g = kit::stream(splice_seed, "splice");
                        let mut f2 = frame.clone();
                        for b in f2[2..].iter_mut() {
                            *b = g.gen();
                        }
                        out.push(f2);
                    }
                    "zero_length_frame_inserted" => {
                        out.push(vec![0, 0]);
                        out.push(frame.clone());
                    }
                    _ => out.push(frame.clone()),
                }
            } else {
                out.push(frame.clone());
            }
            if t.is_some() {
                earlier.push(frame);
            }
            for f in out {
                if r2w.write_all(&f).await.is_err() {
                    break;
                }
            }
        }
        if let Some(h) = held {
            let _ = r2w.write_all(&h).await;
        }
        let _ = r2w.shutdown().await;
        let _ = back.await;
    });
    let mut d = Director::new(seed, sched.clone(), clock.clone());
    d.tick_pct = 0;
    d.max_steps = 2_000_000;
    let _ = d.drive(|| reader.is_finished() && relay.is_finished() && writer.is_finished(), |_| {}).await;
    let s = st.lock().unwrap();
    if let Some(c) = &s.corrupt {
        hist.violation("C13", "tampering_altered_plaintext", format!("tamper {kind} on frame {target}: {c}"));
    }
    if s.received > s.accepted {
        hist.violation("C13", "tampering_altered_plaintext", format!("tamper {kind} on frame {target}: reader got {} bytes, only {} were written", s.received, s.accepted));
    }
    let ended = s.reader_eof || s.reader_err.is_some();
    let n = *nframes.lock().unwrap();
    let applied = target < n;
    if applied && !ended && s.received as usize == total {
        // Tampering must not go unnoticed unless it is a no-op... every kind here changes the
        // ciphertext stream, so the reader must end (error or EOF), possibly after all bytes.
    }
    if s.reader_err.is_some() {
        hist.probe("tampering_detected_as_error");
    }
    drop(s);
    let (res, log) = finish(seed, "noise-tamper", &sched, &hist, d.sim_ns, applied, vec![kit::mix(target as u64, kit::hash_bytes(kind.as_bytes()))],
        json!({"chunks": chunks, "target_frame": target, "kind": kind, "frames_seen": n}), None);
    (res, log, n)
}
