//! Command line of the `check` binary: per-property checks, worker processes, replay,
//! determinism self-test, evidence files.
use std::{
    collections::{BTreeMap, BTreeSet},
    io::{BufRead, BufReader, Write},
    path::PathBuf,
    process::{Command, Stdio},
    time::Instant,
};

use serde::{Deserialize, Serialize};
use serde_json::{json, Value};

use crate::{kit::Violation, props};

/// Result of one simulated execution, in an engine-independent shape.
#[derive(Debug, Clone, Serialize, Deserialize, Default)]
pub struct CaseResult {
    pub seed: u64,
    pub mode: String,
    /// Hash of the full event log.
    pub log_fp: u64,
    /// Hash of the scheduler decisions only.
    pub sched_fp: u64,
    pub steps: u64,
    pub events: u64,
    pub sim_ms: u64,
    /// The run did something the property cares about (engine-specific rule).
    pub nontrivial: bool,
    pub faults: BTreeMap<String, u64>,
    pub probes: BTreeMap<String, u64>,
    pub abstract_states: Vec<u64>,
    pub violations: Vec<Violation>,
    pub panics: Vec<String>,
    pub harness_error: Option<String>,
    /// Short human-readable summary (goes into evidence samples).
    pub summary: Value,
    /// Path of the replay file written for the first violation, if any.
    pub replay: Option<String>,
    /// Draws made per random stream (prim / pipe / node engines): the coordinates of replay cuts.
    #[serde(default)]
    pub draws: BTreeMap<String, u64>,
}

/// One batch of a check: `runs` executions of `engine` in `mode`, seeds derived from the base seed.
#[derive(Debug, Clone)]
pub struct Batch {
    pub engine: &'static str,
    pub mode: &'static str,
    pub runs: u64,
}

pub fn verif_dir() -> PathBuf {
    std::env::var("VERIF_DIR").map(PathBuf::from).unwrap_or_else(|_| PathBuf::from("/verif"))
}

fn arg_val(args: &[String], name: &str) -> Option<String> {
    args.iter().position(|a| a == name).and_then(|i| args.get(i + 1).cloned())
}

pub fn main() -> i32 {
    let args: Vec<String> = std::env::args().skip(1).collect();
    if args.is_empty() {
        eprintln!("usage: check <PROPERTY> [--tier quick|thorough] [--seed N] [--workers N] | check <PROPERTY> --replay <file> | check worker ... | check selftest-determinism <engine> <mode> <n> | check trace <engine> <mode> <seed>");
        return 2;
    }
    crate::kit::panics::install();
    if std::env::var("VERIF_DEBUG_ENTROPY").is_ok() {
        crate::kit::entropy::DEBUG.store(true, std::sync::atomic::Ordering::SeqCst);
    }
    // Panics in code under test are recorded (location + message), not printed.
    crate::kit::panics::quiet(args[0] != "trace");
    match args[0].as_str() {
        "worker" => worker(&args[1..]),
        "worker-one" => {
            // `check worker-one <engine> <mode> <property> <seed>`: one explicit seed.
            crate::kit::panics::quiet(true);
            let seed: u64 = args[4].parse().unwrap();
            println!("START {seed}");
            let r = props::run_case(&args[1], &args[2], seed, false, &args[3]);
            println!("RESULT {}", serde_json::to_string(&r).unwrap());
            0
        }
        "trace" => trace(&args[1..]),
        // `check trace-after <engine> <mode> <seed> <earlier seeds...>`: runs the earlier seeds
        // in this process first (leakage of state between runs shows as a different trace).
        "trace-after" => {
            for s in &args[4..] {
                let _ = props::run_case(&args[1], &args[2], s.parse().unwrap(), false, "-");
            }
            trace(&args[1..4])
        }
        // `check minimise <engine> <replay file> <property> <class>`: prints `MINIMISED <path>`.
        "minimise" => {
            if let Some(p) = props::minimise_replay(&args[1], &args[2], &args[3], &args[4]) {
                println!("MINIMISED {p}");
            }
            0
        }
        "selftest-determinism" => selftest_determinism(&args[1..]),
        "survey" => survey(&args[1..]),
        "list" => {
            for p in props::all() {
                println!("{}", p.id);
            }
            0
        }
        id => match props::find(id) {
            Some(p) => {
                if let Some(path) = arg_val(&args, "--replay") {
                    replay(&p, &path)
                } else {
                    check(&p, &args)
                }
            }
            None => {
                eprintln!("unknown property or command: {id}");
                2
            }
        },
    }
}

/// Seed of the i-th run of a batch.
pub fn run_seed(base: u64, engine: &str, mode: &str, i: u64) -> u64 {
    if mode == "mux-header" {
        // Enumeration: run i sends header value (i + 65536 * k) mod 2^16; the high bits vary the
        // rest of the scenario with the base seed.
        // Bit-reversed index: a short batch still spreads over all frame kinds / stream kinds.
        return ((base % 1000) << 16) | ((i as u16).reverse_bits() as u64) | (1 << 40);
    }
    if mode == "crashenum" {
        // Enumeration: consecutive runs are the crash points of one base run.
        let b = crate::kit::mix(crate::kit::mix(0xC03, base), i / props::CRASHENUM_POINTS) >> 20;
        return (b << 16) | (i % props::CRASHENUM_POINTS);
    }
    let mut h = crate::kit::hash_bytes(engine.as_bytes());
    h = crate::kit::mix(h, crate::kit::hash_bytes(mode.as_bytes()));
    h = crate::kit::mix(h, base);
    crate::kit::mix(h, i) >> 1
}

/// `check worker <engine> <mode> <property> <base_seed> <first> <count> <stride>`: runs the
/// cases `first, first+stride, ...` and prints one JSON line per case.
fn worker(a: &[String]) -> i32 {
    let engine = &a[0];
    let mode = &a[1];
    let prop = &a[2];
    let base: u64 = a[3].parse().unwrap();
    let first: u64 = a[4].parse().unwrap();
    let count: u64 = a[5].parse().unwrap();
    let stride: u64 = a[6].parse().unwrap();
    crate::kit::panics::quiet(true);
    let out = std::io::stdout();
    let mut i = first;
    while i < count {
        let seed = run_seed(base, engine, mode, i);
        // Announce the seed first, so that the parent can attribute an abort.
        {
            let mut o = out.lock();
            writeln!(o, "START {seed}").unwrap();
            o.flush().unwrap();
        }
        let mut r = props::run_case(engine, mode, seed, false, prop);
        if r.violations.iter().any(|v| &v.property == prop) {
            // Re-run with full log and write the replay file.
            r.replay = props::write_replay(engine, mode, seed, prop, &r);
        }
        let mut o = out.lock();
        writeln!(o, "RESULT {}", serde_json::to_string(&r).unwrap()).unwrap();
        o.flush().unwrap();
        i += stride;
    }
    0
}

fn trace(a: &[String]) -> i32 {
    let engine = &a[0];
    let mode = &a[1];
    let seed: u64 = a[2].parse().unwrap();
    let (r, log) = props::run_case_logged(engine, mode, seed);
    for l in log {
        println!("{l}");
    }
    println!("{}", serde_json::to_string_pretty(&r).unwrap());
    0
}

pub struct BatchOutcome {
    pub results: Vec<CaseResult>,
    pub aborted: Vec<(u64, String)>,
    pub wall_s: f64,
}

pub fn run_batch(b: &Batch, prop: &str, base: u64, workers: usize) -> BatchOutcome {
    let t0 = Instant::now();
    let exe = std::env::current_exe().expect("current_exe");
    let workers = workers.min(b.runs.max(1) as usize).max(1);
    let spawn = |exe: &std::path::Path, first: u64| {
        Command::new(exe)
            .args(["worker", b.engine, b.mode, prop, &base.to_string(), &first.to_string(), &b.runs.to_string(), &workers.to_string()])
            .stdout(Stdio::piped())
            .stderr(Stdio::piped())
            .spawn()
            .expect("spawn worker")
    };
    let mut results = vec![];
    let mut aborted = vec![];
    let mut handles = vec![];
    for w in 0..workers {
        let exe = exe.clone();
        let stride = workers as u64;
        let first_child = spawn(&exe, w as u64);
        let spawn_again = {
            let (engine, mode, prop, runs) = (b.engine, b.mode, prop.to_string(), b.runs);
            move |exe: &std::path::Path, first: u64| {
                Command::new(exe)
                    .args(["worker", engine, mode, &prop, &base.to_string(), &first.to_string(), &runs.to_string(), &stride.to_string()])
                    .stdout(Stdio::piped())
                    .stderr(Stdio::piped())
                    .spawn()
                    .expect("spawn worker")
            }
        };
        handles.push(std::thread::spawn(move || {
            let mut res = vec![];
            let mut aborts: Vec<(u64, String)> = vec![];
            let mut c = first_child;
            // Index (within the batch) of the run the worker is at.
            let mut first = w as u64;
            loop {
                let mut starts = 0u64;
                let mut last_start: Option<u64> = None;
                let so = c.stdout.take().unwrap();
                let se = c.stderr.take().unwrap();
                let eh = std::thread::spawn(move || {
                    let mut tail = std::collections::VecDeque::new();
                    for l in BufReader::new(se).lines().map_while(Result::ok) {
                        if tail.len() > 40 {
                            tail.pop_front();
                        }
                        tail.push_back(l);
                    }
                    tail.into_iter().collect::<Vec<_>>().join("\n")
                });
                for l in BufReader::new(so).lines().map_while(Result::ok) {
                    if let Some(s) = l.strip_prefix("START ") {
                        last_start = s.trim().parse().ok();
                        starts += 1;
                    } else if let Some(j) = l.strip_prefix("RESULT ") {
                        match serde_json::from_str::<CaseResult>(j) {
                            Ok(r) => {
                                last_start = None;
                                res.push(r)
                            }
                            Err(e) => eprintln!("bad worker line: {e}"),
                        }
                    }
                }
                let status = c.wait().expect("wait");
                let stderr = eh.join().unwrap_or_default();
                if status.success() {
                    break;
                }
                // The watchdog's line (if any) first: it names the cause.
                let why = match stderr.lines().find(|l| l.starts_with("watchdog:")) {
                    Some(l) => format!("{l}\n{status}: {stderr}"),
                    None => format!("{status}: {stderr}"),
                };
                aborts.push((last_start.unwrap_or(0), why));
                if starts == 0 || last_start.is_none() || aborts.len() >= 5 {
                    break;
                }
                // Carry on after the run which took the worker down.
                first += starts * stride;
                c = spawn_again(&exe, first);
            }
            (res, aborts)
        }));
    }
    let _ = &spawn;
    for h in handles {
        let (r, ab) = h.join().unwrap();
        results.extend(r);
        aborted.extend(ab);
    }
    results.sort_by_key(|r| r.seed);
    BatchOutcome {
        results,
        aborted,
        wall_s: t0.elapsed().as_secs_f64(),
    }
}

fn tier_of(args: &[String]) -> String {
    arg_val(args, "--tier")
        .or_else(|| std::env::var("VERIF_TIER").ok())
        .unwrap_or_else(|| "quick".into())
}

fn base_seed(args: &[String]) -> u64 {
    arg_val(args, "--seed")
        .or_else(|| std::env::var("VERIF_SEED").ok())
        .and_then(|s| s.parse().ok())
        .unwrap_or(1)
}

fn workers(args: &[String]) -> usize {
    arg_val(args, "--workers")
        .or_else(|| std::env::var("VERIF_WORKERS").ok())
        .and_then(|s| s.parse().ok())
        .unwrap_or_else(|| std::thread::available_parallelism().map(|n| n.get()).unwrap_or(8))
}

/// Known findings / fixed entries (committed file, never written at run time).
#[derive(Debug, Clone, Deserialize, Default)]
pub struct KnownFindings {
    #[serde(default)]
    pub known: Vec<KnownFinding>,
    #[serde(default)]
    pub fixed: Vec<Value>,
}

#[derive(Debug, Clone, Deserialize)]
pub struct KnownFinding {
    pub property: String,
    /// Violation class which identifies the finding.
    pub class: String,
    /// Substring which must occur in the violation detail (the specific input / call site).
    pub detail_contains: String,
    pub what: String,
}

pub fn load_known() -> KnownFindings {
    let p = verif_dir().join("known_findings.json");
    match std::fs::read_to_string(&p) {
        Ok(s) => serde_json::from_str(&s).unwrap_or_else(|e| {
            eprintln!("cannot parse {}: {e}", p.display());
            std::process::exit(2)
        }),
        Err(_) => KnownFindings::default(),
    }
}

fn check(p: &props::Prop, args: &[String]) -> i32 {
    let tier = tier_of(args);
    let base = base_seed(args);
    let nw = workers(args);
    let scale: f64 = arg_val(args, "--scale").and_then(|s| s.parse().ok()).unwrap_or(1.0);
    let batches = (p.batches)(&tier);
    let known = load_known();
    let t0 = Instant::now();
    println!("check {} tier={tier} VERIF_SEED={base} workers={nw}", p.id);
    let mut all: Vec<(Batch, BatchOutcome)> = vec![];
    for mut b in batches {
        b.runs = ((b.runs as f64) * scale).ceil() as u64;
        let o = run_batch(&b, p.id, base, nw);
        println!(
            "  batch {}/{}: {} runs in {:.1}s, {} with violations of {}, {} worker aborts",
            b.engine,
            b.mode,
            o.results.len(),
            o.wall_s,
            o.results.iter().filter(|r| r.violations.iter().any(|v| v.property == p.id)).count(),
            p.id,
            o.aborted.len()
        );
        all.push((b, o));
    }
    // Harness errors make the check untrustworthy: exit 2.
    let mut harness_errors = vec![];
    // A worker process killed by a signal / abort while running a seed: the code under test took
    // the process down (memory unsafety, must_complete abort, stack overflow). That is a
    // violation of the property being checked, reproducible from the announced seed.
    let mut aborts: Vec<(String, u64, String)> = vec![];
    for (b, o) in &all {
        for (seed, why) in &o.aborted {
            if *seed == 0 {
                harness_errors.push(format!("{}/{}: worker died before announcing a seed: {why}", b.engine, b.mode));
                continue;
            }
            let dir = verif_dir().join("replays");
            std::fs::create_dir_all(&dir).ok();
            let path = dir.join(format!("{}-{}-{}-{seed}.abort.json", p.id, b.engine, b.mode));
            let doc = json!({"property": p.id, "engine": b.engine, "mode": b.mode, "seed": seed,
                "expected": {"class": "process_aborted", "detail": why.lines().next().unwrap_or("")}});
            std::fs::write(&path, serde_json::to_string_pretty(&doc).unwrap()).ok();
            aborts.push((path.to_string_lossy().to_string(), *seed, why.clone()));
        }
        for r in &o.results {
            if let Some(e) = &r.harness_error {
                harness_errors.push(format!("{}/{} seed {}: {e}", b.engine, b.mode, r.seed));
            }
        }
    }
    // Violations of this property.
    let mut new_violations: Vec<(&Batch, &CaseResult, &Violation)> = vec![];
    let mut known_hits: BTreeMap<String, u64> = BTreeMap::new();
    for (b, o) in &all {
        for r in &o.results {
            for v in r.violations.iter().filter(|v| v.property == p.id) {
                if let Some(k) = known.known.iter().find(|k| {
                    k.property == v.property && k.class == v.class && v.detail.contains(&k.detail_contains)
                }) {
                    *known_hits.entry(k.what.clone()).or_default() += 1;
                } else {
                    new_violations.push((b, r, v));
                }
            }
        }
    }
    let wall = t0.elapsed().as_secs_f64();
    let evidence = build_evidence(p, &tier, base, &all, wall, new_violations.len() as u64, &known_hits);
    let ev_path = verif_dir().join("evidence").join(format!("{}.json", p.id));
    std::fs::create_dir_all(ev_path.parent().unwrap()).ok();
    std::fs::write(&ev_path, serde_json::to_string_pretty(&evidence).unwrap()).expect("write evidence");
    println!("  evidence: {}", ev_path.display());
    for (what, n) in &known_hits {
        println!("KNOWN-FINDING: property={} {what} (hit {n} times)", p.id);
    }
    // Known findings which the batch is expected to reach are announced even if this sample did
    // not hit them, as the interface asks for one line per listed finding.
    for k in known.known.iter().filter(|k| k.property == p.id) {
        if !known_hits.contains_key(&k.what) {
            println!("KNOWN-FINDING: property={} {} (not hit by this run)", p.id, k.what);
        }
    }
    // Runs the harness could not bring to an orderly end.  Alone they are a harness error (exit 2);
    // next to violations of the property they are reported but do not mask the violation (code
    // that breaks the property often also leaves tasks parked for ever).
    if !harness_errors.is_empty() {
        for e in harness_errors.iter().take(10) {
            eprintln!("HARNESS ERROR: {e}");
        }
        if new_violations.is_empty() && aborts.is_empty() {
            return 2;
        }
    }
    if let Some((path, seed, why)) = aborts.first() {
        println!("  worker process died while running seed {seed}: {}", why.lines().next().unwrap_or(""));
        println!("VIOLATION property={} replay={path}", p.id);
        return 1;
    }
    if new_violations.is_empty() {
        println!("OK property={} held on {} executions", p.id, all.iter().map(|(_, o)| o.results.len()).sum::<usize>());
        return 0;
    }
    // Report the first violation (lowest batch order, lowest seed) with a minimised replay.
    let (b, r, v) = new_violations[0];
    let replay = r.replay.clone().unwrap_or_default();
    // The minimiser runs in a child process: a run under an artificial cut (or a shrunk plan) may
    // hang or die in ways the original run did not; that must not take the check down with it.
    let replay = {
        let exe = std::env::current_exe().expect("current_exe");
        let out = Command::new(exe)
            .args(["minimise", b.engine, &replay, p.id, &v.class])
            .env("VERIF_RUN_TIMEOUT_S", "60")
            .stdout(Stdio::piped())
            .stderr(Stdio::null())
            .output();
        match out {
            Ok(o) if o.status.success() => String::from_utf8_lossy(&o.stdout)
                .lines()
                .find_map(|l| l.strip_prefix("MINIMISED ").map(|s| s.trim().to_string()))
                .filter(|p| std::path::Path::new(p).exists())
                .unwrap_or(replay),
            _ => replay,
        }
    };
    println!("  {} violation(s); first: seed {} class {}: {}", new_violations.len(), r.seed, v.class, v.detail);
    println!("VIOLATION property={} replay={}", p.id, replay);
    1
}

fn replay(p: &props::Prop, path: &str) -> i32 {
    let s = match std::fs::read_to_string(path) {
        Ok(s) => s,
        Err(e) => {
            eprintln!("cannot read {path}: {e}");
            return 2;
        }
    };
    let v: Value = serde_json::from_str(&s).expect("replay file is not JSON");
    let engine = v["engine"].as_str().unwrap_or("").to_string();
    if v["expected"]["class"].as_str() == Some("process_aborted") {
        // Re-run the seed in a child process and watch it die.
        let exe = std::env::current_exe().expect("current_exe");
        let st = Command::new(exe)
            .args(["worker-one", &engine, v["mode"].as_str().unwrap_or(""), p.id, &v["seed"].as_u64().unwrap_or(0).to_string()])
            .stdout(Stdio::null())
            .stderr(Stdio::null())
            .status()
            .expect("spawn");
        if !st.success() {
            println!("reproduced: the process running seed {} died: {st}", v["seed"]);
            println!("VIOLATION property={} replay={path}", p.id);
            return 1;
        }
        println!("not reproduced: the process survived");
        return 0;
    }
    let (r, log) = props::replay_case(&engine, &v);
    let n = log.len();
    for l in log.iter().skip(n.saturating_sub(60)) {
        println!("{l}");
    }
    let exp_class = v["expected"]["class"].as_str().unwrap_or("");
    let hit = r.violations.iter().find(|x| x.property == p.id && (exp_class.is_empty() || x.class == exp_class));
    match hit {
        Some(x) => {
            println!("reproduced: {} {} at event {}: {}", x.property, x.class, x.event, x.detail);
            if let Some(e) = v["expected"]["event"].as_u64() {
                if e != x.event {
                    println!("NOTE: expected event {e}, got {}", x.event);
                }
            }
            println!("VIOLATION property={} replay={path}", p.id);
            1
        }
        None => {
            println!("not reproduced (violations: {:?})", r.violations);
            0
        }
    }
}

/// Runs `n` seeds of an engine twice each in *separate processes* and compares fingerprints.
fn selftest_determinism(a: &[String]) -> i32 {
    let engine: &'static str = Box::leak(a[0].clone().into_boxed_str());
    let mode: &'static str = Box::leak(a[1].clone().into_boxed_str());
    let n: u64 = a[2].parse().unwrap();
    let base: u64 = a.get(3).and_then(|s| s.parse().ok()).unwrap_or(1);
    let b = Batch { engine, mode, runs: n };
    let mut divergences = 0;
    let mut fps: Vec<BTreeMap<u64, (u64, u64, u64)>> = vec![];
    for nw in [16usize, 5, 1] {
        if nw == 1 && n > 64 {
            continue;
        }
        let o = run_batch(&b, "-", base, nw);
        if !o.aborted.is_empty() {
            eprintln!("worker aborted: {:?}", o.aborted);
            return 2;
        }
        fps.push(o.results.iter().map(|r| (r.seed, (r.log_fp, r.sched_fp, r.events))).collect());
        println!("  {} runs at {nw} workers: {:.1}s", o.results.len(), o.wall_s);
    }
    for (seed, fp) in &fps[0] {
        for other in &fps[1..] {
            if other.get(seed) != Some(fp) {
                println!("DIVERGENCE seed {seed}: {fp:?} vs {:?}", other.get(seed));
                divergences += 1;
            }
        }
    }
    let distinct: BTreeSet<_> = fps[0].values().map(|x| x.0).collect();
    println!(
        "determinism: {} seeds x {} process configurations, {} divergences, {} distinct log fingerprints",
        fps[0].len(),
        fps.len(),
        divergences,
        distinct.len()
    );
    let out = verif_dir().join("evidence").join(format!("determinism-{engine}-{mode}.json"));
    std::fs::create_dir_all(out.parent().unwrap()).ok();
    std::fs::write(
        &out,
        serde_json::to_string_pretty(&json!({
            "engine": engine, "mode": mode, "seeds": fps[0].len(), "process_configurations": fps.len(),
            "divergences": divergences, "distinct_log_fingerprints": distinct.len(), "base_seed": base,
        }))
        .unwrap(),
    )
    .ok();
    if divergences > 0 {
        1
    } else {
        0
    }
}

fn build_evidence(
    p: &props::Prop,
    tier: &str,
    seed: u64,
    all: &[(Batch, BatchOutcome)],
    wall: f64,
    violations: u64,
    known_hits: &BTreeMap<String, u64>,
) -> Value {
    let mut evaluations = 0u64;
    let mut distinct_nontrivial: BTreeSet<u64> = BTreeSet::new();
    let mut sched_fps: BTreeSet<u64> = BTreeSet::new();
    let mut states: BTreeSet<u64> = BTreeSet::new();
    let mut faults: BTreeMap<String, u64> = BTreeMap::new();
    let mut probes: BTreeMap<String, u64> = BTreeMap::new();
    let mut sim_ms = 0u64;
    let mut steps = 0u64;
    let mut events = 0u64;
    let mut panics = 0u64;
    let mut samples = vec![];
    let mut per_batch = vec![];
    for (b, o) in all {
        let mut nt = 0;
        for r in &o.results {
            evaluations += 1;
            sched_fps.insert(r.sched_fp);
            if r.nontrivial {
                nt += 1;
                distinct_nontrivial.insert(r.log_fp);
            }
            states.extend(r.abstract_states.iter().copied());
            for (k, v) in &r.faults {
                *faults.entry(k.clone()).or_default() += v;
            }
            for (k, v) in &r.probes {
                *probes.entry(k.clone()).or_default() += v;
            }
            sim_ms += r.sim_ms;
            steps += r.steps;
            events += r.events;
            panics += r.panics.len() as u64;
        }
        for r in o.results.iter().take(2) {
            samples.push(json!({"engine": b.engine, "mode": b.mode, "seed": r.seed, "summary": r.summary,
                "faults": r.faults, "steps": r.steps, "events": r.events}));
        }
        per_batch.push(json!({"engine": b.engine, "mode": b.mode, "runs": o.results.len(), "nontrivial": nt,
            "wall_s": (o.wall_s * 10.0).round() / 10.0,
            "runs_per_hour": if o.wall_s > 0.0 { (o.results.len() as f64 / o.wall_s * 3600.0).round() } else { 0.0 }}));
    }
    let zero_probes: Vec<&str> = (p.expected_probes)()
        .into_iter()
        .filter(|n| probes.get(*n).copied().unwrap_or(0) == 0)
        .collect();
    json!({
        "property_id": p.id,
        "tier": if tier == "thorough" { "thorough" } else { "quick" },
        "seed": seed,
        "level": p.level,
        "wall_s": (wall * 100.0).round() / 100.0,
        "violations": violations,
        "coverage": {
            "evaluations": evaluations,
            "distinct_nontrivial": distinct_nontrivial.len(),
            "rule": p.rule,
            "samples": samples,
            "exhaustive": false,
            "batches": per_batch,
            "runs_per_hour": if wall > 0.0 { (evaluations as f64 / wall * 3600.0).round() } else { 0.0 },
            "simulated_seconds": sim_ms as f64 / 1000.0,
            "scheduler_steps": steps,
            "events": events,
            "faults_fired": faults,
            "probes": probes,
            "probes_stuck_at_zero": zero_probes,
            "distinct_schedules": sched_fps.len(),
            "distinct_abstract_states": states.len(),
            "panics_observed": panics,
            "known_findings_hit": known_hits,
            "components": (p.components)(),
        },
        "assumptions": (p.assumptions)(),
    })
}

/// `check survey <engine> <mode> <n> [base]`: runs a batch and prints per-run numbers (tuning aid).
fn survey(a: &[String]) -> i32 {
    let engine: &'static str = Box::leak(a[0].clone().into_boxed_str());
    let mode: &'static str = Box::leak(a[1].clone().into_boxed_str());
    let n: u64 = a[2].parse().unwrap();
    let base: u64 = a.get(3).and_then(|s| s.parse().ok()).unwrap_or(1);
    let o = run_batch(&Batch { engine, mode, runs: n }, "-", base, 16);
    let mut faults: BTreeMap<String, u64> = BTreeMap::new();
    let mut probes: BTreeMap<String, u64> = BTreeMap::new();
    for r in &o.results {
        println!(
            "seed {:>20} steps {:>7} events {:>6} sim {:>7}ms viol {} panics {} err {:?} {}",
            r.seed, r.steps, r.events, r.sim_ms, r.violations.len(), r.panics.len(), r.harness_error,
            serde_json::to_string(&r.summary).unwrap()
        );
        for v in &r.violations {
            println!("    VIOLATION {} {} {}", v.property, v.class, v.detail);
        }
        for p in &r.panics {
            println!("    PANIC {p}");
        }
        for (k, v) in &r.faults {
            *faults.entry(k.clone()).or_default() += v;
        }
        for (k, v) in &r.probes {
            *probes.entry(k.clone()).or_default() += v;
        }
    }
    println!("aborted: {:?}", o.aborted);
    println!("faults: {faults:?}");
    println!("probes: {probes:?}");
    println!("{} runs in {:.1}s", o.results.len(), o.wall_s);
    0
}
