//! A tiny protobuf writer / reader for hand-made (also malformed) messages.
pub fn varint(mut v: u64, out: &mut Vec<u8>) {
    loop {
        let b = (v & 0x7f) as u8;
        v >>= 7;
        if v == 0 {
            out.push(b);
            return;
        }
        out.push(b | 0x80);
    }
}
pub fn field_varint(tag: u32, v: u64, out: &mut Vec<u8>) {
    varint((tag as u64) << 3, out);
    varint(v, out);
}
pub fn field_bytes(tag: u32, b: &[u8], out: &mut Vec<u8>) {
    varint(((tag as u64) << 3) | 2, out);
    varint(b.len() as u64, out);
    out.extend_from_slice(b);
}
/// Length-prefixed frame as used by `frame::send_proto`.
pub fn framed(msg: &[u8]) -> Vec<u8> {
    let mut out = (msg.len() as u32).to_le_bytes().to_vec();
    out.extend_from_slice(msg);
    out
}
fn read_varint(b: &[u8], i: &mut usize) -> Option<u64> {
    let mut v = 0u64;
    let mut shift = 0;
    loop {
        let x = *b.get(*i)?;
        *i += 1;
        v |= ((x & 0x7f) as u64) << shift;
        if x & 0x80 == 0 {
            return Some(v);
        }
        shift += 7;
        if shift > 63 {
            return None;
        }
    }
}
/// Returns the payload of the first length-delimited field with the given tag.
pub fn get_bytes(msg: &[u8], tag: u32) -> Option<Vec<u8>> {
    let mut i = 0;
    while i < msg.len() {
        let key = read_varint(msg, &mut i)?;
        let (t, wt) = ((key >> 3) as u32, key & 7);
        match wt {
            0 => {
                read_varint(msg, &mut i)?;
            }
            2 => {
                let n = read_varint(msg, &mut i)? as usize;
                let v = msg.get(i..i + n)?.to_vec();
                i += n;
                if t == tag {
                    return Some(v);
                }
            }
            1 => i += 8,
            5 => i += 4,
            _ => return None,
        }
    }
    None
}
