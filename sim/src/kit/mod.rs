//! Simulator kernel shared by all engines.
pub mod entropy;
pub mod log;
pub mod pipe;
pub mod proto;
pub mod sched;
pub mod simnet;
pub mod tape;

pub use log::Log;
pub use sched::{run_sim, Policy, Sched};
pub use tape::SimRng;

use rand::SeedableRng;
use rand_chacha::ChaCha8Rng;

/// The single source of randomness of a run: everything is derived from `VERIF_SEED`-based
/// run seeds through labelled sub-streams, so that adding draws to one stream does not
/// perturb the others.
pub fn stream(seed: u64, label: &str) -> SimRng {
    let mut h: u64 = 0xcbf29ce484222325;
    for b in label.bytes() {
        h ^= b as u64;
        h = h.wrapping_mul(0x100000001b3);
    }
    SimRng::new(ChaCha8Rng::seed_from_u64(seed ^ h.rotate_left(17)), label)
}

/// Deterministic 64-bit mixer (stable across processes, unlike `RandomState`).
pub fn mix(h: u64, v: u64) -> u64 {
    let mut z = h ^ v.wrapping_add(0x9e3779b97f4a7c15).wrapping_add(h << 6).wrapping_add(h >> 2);
    z = (z ^ (z >> 30)).wrapping_mul(0xbf58476d1ce4e5b9);
    z = (z ^ (z >> 27)).wrapping_mul(0x94d049bb133111eb);
    z ^ (z >> 31)
}

pub fn hash_bytes(b: &[u8]) -> u64 {
    let mut h = 0x243f6a8885a308d3u64;
    for c in b.chunks(8) {
        let mut x = [0u8; 8];
        x[..c.len()].copy_from_slice(c);
        h = mix(h, u64::from_le_bytes(x));
    }
    mix(h, b.len() as u64)
}

/// A violation found by an oracle.
#[derive(Clone, Debug, serde::Serialize, serde::Deserialize, PartialEq, Eq)]
pub struct Violation {
    pub property: String,
    /// Stable class name, e.g. `conflicting_commit`.
    pub class: String,
    pub detail: String,
    /// Global event number at which it was detected.
    pub event: u64,
}

/// Installs a panic hook which records panic messages + locations of the current thread
/// into a thread-local list (and stays silent), returns nothing.  Panics are still unwound.
pub mod panics {
    use std::sync::{atomic::{AtomicBool, Ordering}, Mutex};
    // Process-wide: a run executes on its own thread (in its own process), and blocking tasks
    // of the code under test on further threads.
    static PANICS: Mutex<Vec<String>> = Mutex::new(Vec::new());
    static QUIET: AtomicBool = AtomicBool::new(false);
    fn list() -> std::sync::MutexGuard<'static, Vec<String>> {
        PANICS.lock().unwrap_or_else(|e| e.into_inner())
    }
    pub fn install() {
        let prev = std::panic::take_hook();
        std::panic::set_hook(Box::new(move |info| {
            let loc = info
                .location()
                .map(|l| format!("{}:{}", l.file(), l.line()))
                .unwrap_or_default();
            let msg = if let Some(s) = info.payload().downcast_ref::<&str>() {
                s.to_string()
            } else if let Some(s) = info.payload().downcast_ref::<String>() {
                s.clone()
            } else {
                "<non-string panic>".to_string()
            };
            list().push(format!("{loc}: {msg}"));
            if !QUIET.load(Ordering::SeqCst) {
                prev(info);
            }
        }));
    }
    pub fn quiet(q: bool) {
        QUIET.store(q, Ordering::SeqCst);
    }
    pub fn take() -> Vec<String> {
        std::mem::take(&mut *list())
    }
    pub fn count() -> usize {
        list().len()
    }
    /// Panics recorded from index `from` on.
    pub fn since(from: usize) -> Vec<String> {
        let l = list();
        l[from.min(l.len())..].to_vec()
    }
}
