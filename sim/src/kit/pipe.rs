//! `SimPipe`: an in-memory duplex byte stream implementing `AsyncRead + AsyncWrite` whose every
//! poll is a seeded decision: bytes accepted per write, bytes returned per read, spurious
//! `Pending` (with a self-wake, so the gate scheduler decides when it continues), bounded
//! capacity (back-pressure), error / EOF at a chosen byte offset, half-close.
use std::{
    collections::VecDeque,
    io,
    pin::Pin,
    sync::{Arc, Mutex},
    task::{Context, Poll, Waker},
};

use rand::Rng;
use crate::kit::SimRng as ChaCha8Rng;
use tokio::io::{AsyncRead, AsyncWrite, ReadBuf};

#[derive(Debug, Clone)]
pub struct PipeCfg {
    /// Largest number of bytes accepted by one `poll_write` / returned by one `poll_read`.
    pub max_write: usize,
    pub max_read: usize,
    /// Probability (percent) of a spurious `Pending`.
    pub pending_pct: u32,
    /// Bytes the pipe buffers before the writer sees back-pressure.
    pub capacity: usize,
    /// The writer gets this error once `written` reaches the offset.
    pub fail_write_at: Option<(u64, io::ErrorKind)>,
    /// The reader gets this error (or EOF if `None` kind) once `read` reaches the offset.
    pub fail_read_at: Option<(u64, Option<io::ErrorKind>)>,
}

impl PipeCfg {
    pub fn benign() -> Self {
        Self {
            max_write: usize::MAX,
            max_read: usize::MAX,
            pending_pct: 0,
            capacity: 1 << 20,
            fail_write_at: None,
            fail_read_at: None,
        }
    }
    pub fn random(rng: &mut ChaCha8Rng) -> Self {
        let sizes = [1usize, 2, 3, 7, 64, 1000, 65536, usize::MAX];
        Self {
            max_write: sizes[rng.gen_range(0..sizes.len())],
            max_read: sizes[rng.gen_range(0..sizes.len())],
            pending_pct: [0u32, 0, 10, 40][rng.gen_range(0..4)],
            capacity: [1usize, 5, 100, 70_000, 1 << 20][rng.gen_range(0..5)],
            fail_write_at: None,
            fail_read_at: None,
        }
    }
}

#[derive(Debug, Default, Clone)]
pub struct PipeStats {
    pub written: u64,
    pub read: u64,
    pub short_writes: u64,
    pub short_reads: u64,
    pub spurious_pending: u64,
    pub backpressure: u64,
    pub max_buffered: usize,
}

pub struct Dir {
    buf: VecDeque<u8>,
    pub stats: PipeStats,
    /// Writer has shut down / been dropped: reader sees EOF after draining.
    pub write_closed: bool,
    /// Reader has been dropped: writer sees BrokenPipe.
    pub read_closed: bool,
    reader_waker: Option<Waker>,
    writer_waker: Option<Waker>,
    rng: ChaCha8Rng,
    pub cfg: PipeCfg,
    /// Every byte ever written (observers parse the wire format from this).
    pub wire: Vec<u8>,
    pub keep_wire: bool,
    /// When set, `marks` records (wire offset, simulated time in ns) of every write.
    pub clock: Option<(zksync_concurrency::ctx::ManualClock, zksync_concurrency::time::Instant)>,
    pub marks: Vec<(u64, i128)>,
}

impl Dir {
    fn new(cfg: PipeCfg, rng: ChaCha8Rng) -> Self {
        Self {
            buf: VecDeque::new(),
            stats: PipeStats::default(),
            write_closed: false,
            read_closed: false,
            reader_waker: None,
            writer_waker: None,
            rng,
            cfg,
            wire: vec![],
            keep_wire: false,
            clock: None,
            marks: vec![],
        }
    }
    pub fn buffered(&self) -> usize {
        self.buf.len()
    }
    /// Wakes both ends (after the director changed the pipe's state).
    pub fn kick(&mut self) {
        self.wake_reader();
        self.wake_writer();
    }
    fn wake_reader(&mut self) {
        if let Some(w) = self.reader_waker.take() {
            w.wake();
        }
    }
    fn wake_writer(&mut self) {
        if let Some(w) = self.writer_waker.take() {
            w.wake();
        }
    }
}

pub type SharedDir = Arc<Mutex<Dir>>;

/// One end of a simulated duplex connection.
pub struct SimPipe {
    pub tx: SharedDir,
    pub rx: SharedDir,
}

/// Creates a connected pair; `(a_to_b, b_to_a)` configurations.
pub fn pair(seed: u64, label: &str, a_to_b: PipeCfg, b_to_a: PipeCfg) -> (SimPipe, SimPipe) {
    let ab = Arc::new(Mutex::new(Dir::new(a_to_b, super::stream(seed, &format!("{label}-ab")))));
    let ba = Arc::new(Mutex::new(Dir::new(b_to_a, super::stream(seed, &format!("{label}-ba")))));
    (
        SimPipe { tx: ab.clone(), rx: ba.clone() },
        SimPipe { tx: ba, rx: ab },
    )
}

impl Drop for SimPipe {
    fn drop(&mut self) {
        let mut t = self.tx.lock().unwrap();
        t.write_closed = true;
        t.wake_reader();
        drop(t);
        let mut r = self.rx.lock().unwrap();
        r.read_closed = true;
        r.wake_writer();
    }
}

impl AsyncRead for SimPipe {
    fn poll_read(self: Pin<&mut Self>, cx: &mut Context<'_>, out: &mut ReadBuf<'_>) -> Poll<io::Result<()>> {
        let mut d = self.rx.lock().unwrap();
        if let Some((at, kind)) = d.cfg.fail_read_at {
            if d.stats.read >= at {
                return Poll::Ready(match kind {
                    Some(k) => Err(k.into()),
                    None => Ok(()), // EOF
                });
            }
        }
        let pct = d.cfg.pending_pct;
        if pct > 0 && d.rng.gen_range(0..100) < pct {
            d.stats.spurious_pending += 1;
            cx.waker().wake_by_ref();
            return Poll::Pending;
        }
        if d.buf.is_empty() {
            if d.write_closed {
                return Poll::Ready(Ok(()));
            }
            d.reader_waker = Some(cx.waker().clone());
            return Poll::Pending;
        }
        let mut n = d.buf.len().min(out.remaining());
        let max = d.cfg.max_read;
        if max < n {
            n = d.rng.gen_range(1..=max);
            d.stats.short_reads += 1;
        }
        if let Some((at, _)) = d.cfg.fail_read_at {
            n = n.min((at - d.stats.read) as usize).max(0);
        }
        if n == 0 && out.remaining() > 0 {
            // Only possible right at the failure offset, handled above on the next poll.
            cx.waker().wake_by_ref();
            return Poll::Pending;
        }
        for _ in 0..n {
            let b = d.buf.pop_front().unwrap();
            out.put_slice(&[b]);
        }
        d.stats.read += n as u64;
        d.wake_writer();
        Poll::Ready(Ok(()))
    }
}

impl AsyncWrite for SimPipe {
    fn poll_write(self: Pin<&mut Self>, cx: &mut Context<'_>, data: &[u8]) -> Poll<io::Result<usize>> {
        let mut d = self.tx.lock().unwrap();
        if d.read_closed {
            return Poll::Ready(Err(io::ErrorKind::BrokenPipe.into()));
        }
        if d.write_closed {
            return Poll::Ready(Err(io::ErrorKind::BrokenPipe.into()));
        }
        if let Some((at, kind)) = d.cfg.fail_write_at {
            if d.stats.written >= at {
                return Poll::Ready(Err(kind.into()));
            }
        }
        if data.is_empty() {
            return Poll::Ready(Ok(0));
        }
        let pct = d.cfg.pending_pct;
        if pct > 0 && d.rng.gen_range(0..100) < pct {
            d.stats.spurious_pending += 1;
            cx.waker().wake_by_ref();
            return Poll::Pending;
        }
        let room = d.cfg.capacity.saturating_sub(d.buf.len());
        if room == 0 {
            d.stats.backpressure += 1;
            d.writer_waker = Some(cx.waker().clone());
            return Poll::Pending;
        }
        let mut n = data.len().min(room);
        let max = d.cfg.max_write;
        if max < n {
            n = d.rng.gen_range(1..=max);
        }
        if let Some((at, _)) = d.cfg.fail_write_at {
            n = n.min((at - d.stats.written) as usize).max(1);
        }
        if n < data.len() {
            d.stats.short_writes += 1;
        }
        d.buf.extend(&data[..n]);
        if d.keep_wire {
            d.wire.extend_from_slice(&data[..n]);
            if let Some((c, t0)) = &d.clock {
                let t = (c.now() - *t0).whole_nanoseconds();
                let off = d.stats.written;
                d.marks.push((off, t));
            }
        }
        d.stats.written += n as u64;
        let b = d.buf.len();
        d.stats.max_buffered = d.stats.max_buffered.max(b);
        d.wake_reader();
        Poll::Ready(Ok(n))
    }

    fn poll_flush(self: Pin<&mut Self>, cx: &mut Context<'_>) -> Poll<io::Result<()>> {
        let mut d = self.tx.lock().unwrap();
        let pct = d.cfg.pending_pct;
        if pct > 0 && d.rng.gen_range(0..100) < pct {
            d.stats.spurious_pending += 1;
            cx.waker().wake_by_ref();
            return Poll::Pending;
        }
        Poll::Ready(Ok(()))
    }

    fn poll_shutdown(self: Pin<&mut Self>, _cx: &mut Context<'_>) -> Poll<io::Result<()>> {
        let mut d = self.tx.lock().unwrap();
        d.write_closed = true;
        d.wake_reader();
        Poll::Ready(Ok(()))
    }
}
