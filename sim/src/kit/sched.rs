//! Gate scheduler + quiescence detection on top of a real tokio current-thread runtime.
//!
//! Every task spawned through `zksync_concurrency` (scope tasks, context watchers) and every
//! harness task is wrapped in `verif::Gated`.  When tokio polls such a task without a grant the
//! wrapper parks it in `ready`; when tokio's run queue drains, `on_thread_park` wakes the
//! director, which picks one ready task (from the seeded stream), grants it and lets tokio poll
//! its inner future exactly once.
use std::{
    cell::{Cell, RefCell},
    collections::BTreeMap,
    future::Future,
    pin::Pin,
    rc::Rc,
    sync::{Arc, Condvar, Mutex, MutexGuard},
    task::{Context, Poll, Wake, Waker},
};

use rand::{Rng, SeedableRng};
use rand_chacha::ChaCha8Rng;
use zksync_concurrency::verif;

thread_local! {
    /// Owner tag of the task whose inner future is being polled right now (0 = none / director).
    static CUR_TAG: Cell<u64> = const { Cell::new(0) };
    static PARKS: Cell<u64> = const { Cell::new(0) };
    static PARK_WAKER: RefCell<Option<Waker>> = const { RefCell::new(None) };
}

/// Owner tag of the task being polled (see `Sched::set_spawn_tag`).
pub fn current_tag() -> u64 {
    CUR_TAG.with(|c| c.get())
}

/// Called by tokio when the run queue is empty.
pub(crate) fn on_park() {
    PARKS.with(|p| p.set(p.get() + 1));
    if let Some(w) = PARK_WAKER.with(|w| w.borrow_mut().take()) {
        w.wake();
    }
}

/// Resolves at the next quiescence of the runtime (run queue empty).
pub struct WaitPark(u64);

pub fn wait_park() -> WaitPark {
    WaitPark(PARKS.with(|p| p.get()))
}

impl Future for WaitPark {
    type Output = ();
    fn poll(self: Pin<&mut Self>, cx: &mut Context<'_>) -> Poll<()> {
        if PARKS.with(|p| p.get()) > self.0 {
            return Poll::Ready(());
        }
        PARK_WAKER.with(|w| *w.borrow_mut() = Some(cx.waker().clone()));
        Poll::Pending
    }
}

/// How the next task is chosen among the ready ones.
#[derive(Clone, Copy, Debug, PartialEq, Eq, serde::Serialize, serde::Deserialize)]
pub enum Policy {
    /// Oldest ready task first (what tokio's current-thread scheduler would do).
    Fifo,
    /// Uniformly random ready task.
    Uniform,
    /// With probability p/100 the task which ran last (if ready), else uniform.
    Sticky(u8),
    /// Newest ready task first with probability p/100, else uniform.
    Lifo(u8),
}

struct Inner {
    next_id: u64,
    /// Tasks waiting for the CPU, in arrival order.
    ready: Vec<(u64, Waker)>,
    granted: Option<u64>,
    last: Option<u64>,
    live: i64,
    steps: u64,
    spawned: u64,
    /// Hash of the sequence of (task id) granted so far.
    sched_fp: u64,
    /// Recorded picks (index into `ready`), for replay files.
    picks: Vec<u32>,
    record: bool,
    /// Owner tag of every live task (inherited from the spawning task).
    tags: std::collections::HashMap<u64, u64>,
    /// Task whose inner future is being polled right now.
    current: Option<u64>,
    /// Tag given to tasks spawned by the director itself.
    spawn_tag: u64,
    last_tag: u64,
    /// Simulated blocking tasks (OS threads under baton passing).
    threads: BTreeMap<u64, ThreadSt>,
    /// The blocking thread holding the baton (None = the runtime thread holds it).
    running: Option<u64>,
    /// Called when a blocking task has completely finished.
    on_blocking_done: Option<Arc<dyn Fn(u64) + Send + Sync>>,
}

#[derive(Debug, Clone, Copy, PartialEq, Eq)]
enum TState {
    /// Wants the CPU (not started yet, preempted, or woken).
    Ready,
    Running,
    /// Waits for its waker.
    Blocked,
}

struct ThreadSt {
    /// Yielded because a lock it wants is taken: not picked again until something else has run.
    contended: bool,
    state: TState,
    /// Woken while running: a following `Blocked` yield turns into `Ready`.
    woken: bool,
    tag: u64,
}

pub struct GateSched {
    inner: Mutex<Inner>,
    cv: Condvar,
}

impl GateSched {
    fn lock(&self) -> MutexGuard<'_, Inner> {
        self.inner.lock().unwrap()
    }
}

struct BlockingWaker {
    sched: Arc<GateSched>,
    id: u64,
}

impl Wake for BlockingWaker {
    fn wake(self: Arc<Self>) {
        self.wake_by_ref();
    }
    fn wake_by_ref(self: &Arc<Self>) {
        let mut i = self.sched.lock();
        if let Some(t) = i.threads.get_mut(&self.id) {
            match t.state {
                TState::Blocked => t.state = TState::Ready,
                TState::Running => t.woken = true,
                TState::Ready => {}
            }
        }
    }
}

impl verif::Scheduler for GateSched {
    fn new_task(&self) -> u64 {
        let mut i = self.lock();
        i.next_id += 1;
        i.live += 1;
        i.spawned += 1;
        let tag = match (i.running.and_then(|r| i.threads.get(&r).map(|t| t.tag)), i.current.and_then(|c| i.tags.get(&c).copied())) {
            (Some(t), _) => t,
            (None, Some(t)) => t,
            (None, None) => i.spawn_tag,
        };
        let id = i.next_id;
        i.tags.insert(id, tag);
        id
    }
    fn poll_gate(&self, id: u64, waker: &Waker) -> bool {
        let mut i = self.lock();
        if i.granted == Some(id) {
            i.granted = None;
            i.ready.retain(|(x, _)| *x != id);
            i.current = Some(id);
            i.last_tag = i.tags.get(&id).copied().unwrap_or(0);
            CUR_TAG.with(|c| c.set(i.last_tag));
            return true;
        }
        if let Some(e) = i.ready.iter_mut().find(|(x, _)| *x == id) {
            if !e.1.will_wake(waker) {
                e.1 = waker.clone();
            }
        } else {
            i.ready.push((id, waker.clone()));
        }
        false
    }
    fn after_poll(&self, _id: u64, _done: bool) {
        let mut i = self.lock();
        i.threads.values_mut().for_each(|t| t.contended = false);
        i.current = None;
        drop(i);
        CUR_TAG.with(|c| c.set(0));
    }
    fn task_dropped(&self, id: u64) {
        let mut i = self.lock();
        i.live -= 1;
        i.tags.remove(&id);
        i.ready.retain(|(x, _)| *x != id);
        if i.granted == Some(id) {
            i.granted = None;
        }
    }

    fn new_blocking(&self) -> u64 {
        let mut i = self.lock();
        i.next_id += 1;
        i.live += 1;
        i.spawned += 1;
        let tag = match (i.running.and_then(|r| i.threads.get(&r).map(|t| t.tag)), i.current.and_then(|c| i.tags.get(&c).copied())) {
            (Some(t), _) => t,
            (None, Some(t)) => t,
            (None, None) => i.spawn_tag,
        };
        let id = i.next_id;
        i.threads.insert(id, ThreadSt { state: TState::Ready, woken: false, tag, contended: false });
        id
    }

    fn blocking_wait_grant(&self, id: u64) {
        let mut i = self.lock();
        while i.running != Some(id) {
            i = self.cv.wait(i).unwrap();
        }
    }

    fn blocking_yield(&self, id: u64, how: verif::Yield) {
        let mut i = self.lock();
        debug_assert_eq!(i.running, Some(id));
        match how {
            verif::Yield::Done => {
                i.threads.values_mut().for_each(|t| t.contended = false);
                i.threads.remove(&id);
                i.live -= 1;
                // The callback runs while this thread still holds the baton (the runtime thread
                // may wake up spuriously from its condvar wait as soon as `running` is cleared).
                let cb = i.on_blocking_done.clone();
                drop(i);
                if let Some(cb) = cb {
                    cb(id);
                }
                let mut i = self.lock();
                i.running = None;
                drop(i);
                self.cv.notify_all();
                return;
            }
            verif::Yield::Preempted => {
                i.threads.values_mut().for_each(|t| t.contended = false);
                let t = i.threads.get_mut(&id).unwrap();
                t.state = TState::Ready;
            }
            verif::Yield::Contended => {
                let t = i.threads.get_mut(&id).unwrap();
                t.state = TState::Ready;
                t.contended = true;
            }
            verif::Yield::Blocked => {
                i.threads.values_mut().for_each(|t| t.contended = false);
                let t = i.threads.get_mut(&id).unwrap();
                t.state = if t.woken { TState::Ready } else { TState::Blocked };
            }
        }
        i.threads.get_mut(&id).unwrap().woken = false;
        i.running = None;
        self.cv.notify_all();
        while i.running != Some(id) {
            i = self.cv.wait(i).unwrap();
        }
    }

    fn blocking_help(&self) -> bool {
        // On the runtime thread, inside a task poll which needs a lock held by a preempted
        // simulated thread: run the runnable thread with the lowest id for one slice.
        let mut i = self.lock();
        let Some(id) = i.threads.iter().find(|(_, t)| t.state == TState::Ready && !t.contended).map(|(id, _)| *id) else {
            return false;
        };
        i.steps += 1;
        i.sched_fp = mix(i.sched_fp, id ^ 0x4e1f);
        if let Some(t) = i.threads.get_mut(&id) {
            t.state = TState::Running;
        }
        i.running = Some(id);
        self.cv.notify_all();
        while i.running.is_some() {
            i = self.cv.wait(i).unwrap();
        }
        true
    }

    fn blocking_waker(&self, id: u64) -> Waker {
        // `self` is always reached through the `Arc` installed in the thread-local.
        // Blocking threads are not the thread the simulation runs on: look the `Arc` up by address.
        let me = SELF_ARC
            .with(|s| s.borrow().clone())
            .or_else(|| REGISTRY.lock().unwrap().get(&(self as *const GateSched as usize)).cloned())
            .expect("scheduler arc");
        Waker::from(Arc::new(BlockingWaker { sched: me, id }))
    }
}

thread_local! {
    static SELF_ARC: RefCell<Option<Arc<GateSched>>> = const { RefCell::new(None) };
}
/// Live schedulers by address (several worker threads may simulate in one process).
static REGISTRY: Mutex<BTreeMap<usize, Arc<GateSched>>> = Mutex::new(BTreeMap::new());

/// Source of scheduler picks.
pub enum PickSource {
    Rng(crate::kit::SimRng),
    /// Explicit picks (replay of a minimised schedule); 0 once exhausted.
    Tape(Vec<u32>, usize),
}

pub struct Sched {
    pub gate: Arc<GateSched>,
    pub policy: Cell<Policy>,
    step_limit_hit: Cell<bool>,
    src: RefCell<PickSource>,
}

fn mix(h: u64, v: u64) -> u64 {
    // splitmix-style mixing; deterministic across processes.
    let mut z = h ^ v.wrapping_add(0x9e3779b97f4a7c15).wrapping_add(h << 6).wrapping_add(h >> 2);
    z = (z ^ (z >> 30)).wrapping_mul(0xbf58476d1ce4e5b9);
    z = (z ^ (z >> 27)).wrapping_mul(0x94d049bb133111eb);
    z ^ (z >> 31)
}

impl Sched {
    pub fn new(seed: u64, policy: Policy, record: bool) -> Self {
        Self {
            gate: Arc::new(GateSched {
                cv: Condvar::new(),
                inner: Mutex::new(Inner {
                    next_id: 0,
                    ready: vec![],
                    granted: None,
                    last: None,
                    live: 0,
                    steps: 0,
                    spawned: 0,
                    sched_fp: 0,
                    picks: vec![],
                    record,
                    tags: Default::default(),
                    current: None,
                    spawn_tag: 0,
                    last_tag: 0,
                    threads: BTreeMap::new(),
                    running: None,
                    on_blocking_done: None,
                }),
            }),
            policy: Cell::new(policy),
            step_limit_hit: Cell::new(false),
            src: RefCell::new(PickSource::Rng(crate::kit::SimRng::new(ChaCha8Rng::seed_from_u64(seed ^ 0x5ced), "sched"))),
        }
    }

    pub fn with_tape(picks: Vec<u32>, record: bool) -> Self {
        let s = Self::new(0, Policy::Uniform, record);
        *s.src.borrow_mut() = PickSource::Tape(picks, 0);
        s
    }

    /// Tag for tasks spawned by the director from now on.
    pub fn set_spawn_tag(&self, tag: u64) {
        let mut i = self.gate.lock();
        i.current = None;
        i.spawn_tag = tag;
    }
    /// Owner tag of the task which made the last step.
    pub fn last_tag(&self) -> u64 {
        self.gate.lock().last_tag
    }
    pub fn ready_len(&self) -> usize {
        let i = self.gate.lock();
        i.ready.len() + i.threads.values().filter(|t| t.state == TState::Ready).count()
    }
    /// Ids of the ready tasks (debugging aid).
    /// A director ran into its step budget during this run (the run is cut short: no verdict on
    /// whatever was still in progress).
    pub fn note_step_limit(&self) {
        self.step_limit_hit.set(true);
    }
    pub fn step_limit_hit(&self) -> bool {
        self.step_limit_hit.get()
    }
    pub fn ready_ids(&self) -> Vec<u64> {
        self.gate.lock().ready.iter().map(|(id, _)| *id).collect()
    }
    pub fn live(&self) -> i64 {
        self.gate.lock().live
    }
    pub fn steps(&self) -> u64 {
        self.gate.lock().steps
    }
    pub fn spawned(&self) -> u64 {
        self.gate.lock().spawned
    }
    pub fn fingerprint(&self) -> u64 {
        self.gate.lock().sched_fp
    }
    pub fn picks(&self) -> Vec<u32> {
        self.gate.lock().picks.clone()
    }

    fn choose(&self, n: usize, last_pos: Option<usize>) -> usize {
        debug_assert!(n > 0);
        let mut src = self.src.borrow_mut();
        match &mut *src {
            PickSource::Tape(v, pos) => {
                let k = v.get(*pos).copied().unwrap_or(0) as usize;
                *pos += 1;
                k % n
            }
            PickSource::Rng(rng) => {
                if n == 1 {
                    return 0;
                }
                match self.policy.get() {
                    Policy::Fifo => 0,
                    Policy::Uniform => rng.gen_range(0..n),
                    Policy::Sticky(p) => match last_pos {
                        Some(i) if rng.gen_range(0..100u8) < p => i,
                        _ => rng.gen_range(0..n),
                    },
                    Policy::Lifo(p) => {
                        if rng.gen_range(0..100u8) < p {
                            n - 1
                        } else {
                            rng.gen_range(0..n)
                        }
                    }
                }
            }
        }
    }

    /// Lets one ready task (or simulated blocking thread) make one step.
    /// Returns false if nothing is ready.
    pub async fn step(&self) -> bool {
        enum Pick {
            Task(Waker),
            Thread(u64),
        }
        let pick = {
            let i = self.gate.lock();
            let mut threads: Vec<u64> = i.threads.iter().filter(|(_, t)| t.state == TState::Ready && !t.contended).map(|(id, _)| *id).collect();
            if threads.is_empty() && i.ready.is_empty() {
                // Only lock spinners are left: let them look again.
                threads = i.threads.iter().filter(|(_, t)| t.state == TState::Ready).map(|(id, _)| *id).collect();
            }
            let nt = i.ready.len();
            let n = nt + threads.len();
            if n == 0 {
                return false;
            }
            let last_pos = i.last.and_then(|l| i.ready.iter().position(|(x, _)| *x == l).or_else(|| threads.iter().position(|x| *x == l).map(|p| nt + p)));
            drop(i);
            let k = self.choose(n, last_pos);
            let mut i = self.gate.lock();
            i.steps += 1;
            if i.record {
                i.picks.push(k as u32);
            }
            if k < nt {
                let (id, w) = i.ready.remove(k);
                i.granted = Some(id);
                i.last = Some(id);
                i.sched_fp = mix(i.sched_fp, id);
                Pick::Task(w)
            } else {
                let id = threads[k - nt];
                i.last = Some(id);
                i.sched_fp = mix(i.sched_fp, id);
                let tag = i.threads.get(&id).map(|t| t.tag).unwrap_or(0);
                i.last_tag = tag;
                Pick::Thread(id)
            }
        };
        match pick {
            Pick::Task(w) => w.wake(),
            Pick::Thread(id) => {
                // Hand the baton to the thread and block this (the runtime) thread until it
                // comes back.
                let mut i = self.gate.lock();
                if let Some(t) = i.threads.get_mut(&id) {
                    t.state = TState::Running;
                }
                i.running = Some(id);
                self.gate.cv.notify_all();
                while i.running.is_some() {
                    i = self.gate.cv.wait(i).unwrap();
                }
            }
        }
        wait_park().await;
        true
    }

    /// Registers a callback invoked (on the finishing thread) when a blocking task is done.
    pub fn on_blocking_done(&self, cb: Arc<dyn Fn(u64) + Send + Sync>) {
        self.gate.lock().on_blocking_done = Some(cb);
    }

    /// Lets tokio poll everything that has been woken (by the director itself, e.g. by sending
    /// on a channel or advancing a clock), so that the ready set is up to date.
    pub async fn settle(&self) {
        wait_park().await;
    }

    /// Runs ready tasks until nothing is ready or `max` steps were made.
    /// Returns the number of steps made.
    pub async fn run(&self, max: u64) -> u64 {
        self.settle().await;
        let mut n = 0;
        while n < max && self.step().await {
            n += 1;
        }
        n
    }
}

/// Runs `main` (the director) on a fresh, fully simulated tokio runtime.
/// `main` must leave no live tasks behind; if it does, the runtime is leaked instead of
/// dropped (dropping a half-run `scope::run!` aborts the process) and `Err` is returned.
pub fn run_sim<T, Fut: Future<Output = T>>(
    seed: u64,
    sched: Rc<Sched>,
    main: impl FnOnce(Rc<Sched>) -> Fut,
) -> (T, Result<(), String>) {
    let mut seed_bytes = [0u8; 32];
    seed_bytes[..8].copy_from_slice(&seed.to_le_bytes());
    let rt = tokio::runtime::Builder::new_current_thread()
        .rng_seed(tokio::runtime::RngSeed::from_bytes(&seed_bytes))
        .on_thread_park(on_park)
        .build()
        .expect("runtime");
    verif::install_scheduler(Some(sched.gate.clone()));
    SELF_ARC.with(|x| *x.borrow_mut() = Some(sched.gate.clone()));
    REGISTRY.lock().unwrap().insert(Arc::as_ptr(&sched.gate) as usize, sched.gate.clone());
    let s2 = sched.clone();
    let out = rt.block_on(async move {
        // Let tokio settle once so that `wait_park` has a baseline.
        let fut = main(s2);
        fut.await
    });
    let live = sched.live();
    let res = if live != 0 {
        // Never drop a runtime which still owns scope futures.
        std::mem::forget(rt);
        Err(format!("{live} tasks still alive at the end of the run"))
    } else {
        drop(rt);
        Ok(())
    };
    verif::install_scheduler(None);
    SELF_ARC.with(|x| *x.borrow_mut() = None);
    REGISTRY.lock().unwrap().remove(&(Arc::as_ptr(&sched.gate) as usize));
    (out, res)
}
