//! Labelled random streams with *cut points* - the replay/minimisation format of the engines
//! whose scenarios are a pure function of (mode, seed) (prim, pipe, node).
//!
//! Every random decision of a run is drawn from a `SimRng` created by `kit::stream(seed, label)`
//! (the scheduler's picks are the stream `sched`).  A stream counts its draws.  A *cut*
//! `(label, k, fill)` lets the stream behave exactly as seeded for its first `k` draws and makes
//! every later draw the simplest possible one:
//!   * `Fill::Low`:  `gen_range` returns the lowest value of the range, `gen_bool` false, raw
//!     words are 0 (for the scheduler: the runnable task with the lowest id, i.e. FIFO order);
//!   * `Fill::High`: `gen_range` returns the highest value of the range (the harness' idiom
//!     `gen_range(0..100) < pct` is then false: the optional fault / branch is *not* taken),
//!     `gen_bool` false, raw words 0.
//! A run is a pure function of (mode, seed, cuts).  The minimiser looks, stream by stream, for the
//! smallest `k` for which the same violation class still fires; the replay file records the
//! seed and the cuts, `--replay` applies them.  Without cuts a `SimRng` produces bit for bit the
//! stream of the `ChaCha8Rng` it wraps.
use std::{
    collections::BTreeMap,
    sync::{
        atomic::{AtomicU64, Ordering},
        Arc, Mutex,
    },
};

use rand::{
    distributions::uniform::{SampleRange, SampleUniform},
    Rng, RngCore,
};
use rand_chacha::ChaCha8Rng;

#[derive(Clone, Copy, Debug, PartialEq, Eq, serde::Serialize, serde::Deserialize)]
pub enum Fill {
    Low,
    High,
}

pub type Cuts = BTreeMap<String, (u64, Fill)>;

struct Slot {
    drawn: AtomicU64,
    cut: Option<(u64, Fill)>,
}

struct Table {
    cuts: Cuts,
    slots: BTreeMap<String, Arc<Slot>>,
}

static TABLE: Mutex<Table> = Mutex::new(Table { cuts: BTreeMap::new(), slots: BTreeMap::new() });

fn table() -> std::sync::MutexGuard<'static, Table> {
    TABLE.lock().unwrap_or_else(|e| e.into_inner())
}

/// Cuts for the runs started from now on (inherited by the forked simulation process).
pub fn set_cuts(c: Cuts) {
    let mut t = table();
    t.cuts = c;
    t.slots.clear();
}

/// Forgets the draw counters of an earlier run in this process.
pub fn begin_run() {
    table().slots.clear();
}

/// Draws made so far per stream label.
pub fn draws() -> BTreeMap<String, u64> {
    table().slots.iter().map(|(k, s)| (k.clone(), s.drawn.load(Ordering::Relaxed))).collect()
}

pub struct SimRng {
    inner: ChaCha8Rng,
    slot: Arc<Slot>,
}

impl SimRng {
    pub fn new(inner: ChaCha8Rng, label: &str) -> Self {
        let mut t = table();
        let cut = t.cuts.get(label).copied();
        // Streams created twice under one label share counter and cut (creation order is part of
        // the deterministic run).
        let slot = t.slots.entry(label.to_string()).or_insert_with(|| Arc::new(Slot { drawn: AtomicU64::new(0), cut })).clone();
        Self { inner, slot }
    }

    /// Counts a draw; `Some(fill)` if the stream is past its cut.
    fn tick(&self) -> Option<Fill> {
        let n = self.slot.drawn.fetch_add(1, Ordering::Relaxed);
        match self.slot.cut {
            Some((k, f)) if n >= k => Some(f),
            _ => None,
        }
    }

    pub fn gen_range<T, R>(&mut self, range: R) -> T
    where
        T: SampleUniform,
        R: SampleRange<T>,
    {
        match self.tick() {
            None => self.inner.gen_range(range),
            Some(Fill::Low) => range.sample_single(&mut Fixed { k: None }),
            Some(Fill::High) => range.sample_single(&mut Fixed { k: Some(0) }),
        }
    }

    pub fn gen_bool(&mut self, p: f64) -> bool {
        match self.tick() {
            None => self.inner.gen_bool(p),
            Some(_) => false,
        }
    }
}

impl RngCore for SimRng {
    fn next_u32(&mut self) -> u32 {
        match self.tick() {
            None => self.inner.next_u32(),
            Some(_) => 0,
        }
    }
    fn next_u64(&mut self) -> u64 {
        match self.tick() {
            None => self.inner.next_u64(),
            Some(_) => 0,
        }
    }
    fn fill_bytes(&mut self, dest: &mut [u8]) {
        match self.tick() {
            None => self.inner.fill_bytes(dest),
            Some(_) => dest.fill(0),
        }
    }
    fn try_fill_bytes(&mut self, dest: &mut [u8]) -> Result<(), rand::Error> {
        self.fill_bytes(dest);
        Ok(())
    }
}

/// Word source for draws past a cut.  `k = None`: zeros (uniform sampling maps 0 to the lowest
/// value of a range and never rejects it).  `k = Some(i)`: all ones, then all ones minus
/// `2^i - 1` for growing `i` - uniform sampling maps these to the highest value of the range; a
/// word it rejects (rejection sampling refuses the topmost words of ranges which do not divide
/// the word size) is followed by a slightly lower one, down to 0, so sampling always terminates.
struct Fixed {
    k: Option<u32>,
}

impl Fixed {
    fn word(&mut self) -> u64 {
        match &mut self.k {
            None => 0,
            Some(i) => {
                let v = if *i >= 64 { 0 } else { u64::MAX - ((1u64 << *i) - 1) };
                *i += 1;
                v
            }
        }
    }
}

impl RngCore for Fixed {
    fn next_u32(&mut self) -> u32 {
        (self.word() >> 32) as u32
    }
    fn next_u64(&mut self) -> u64 {
        self.word()
    }
    fn fill_bytes(&mut self, dest: &mut [u8]) {
        let w = self.word().to_le_bytes();
        for (i, b) in dest.iter_mut().enumerate() {
            *b = w[i % 8];
        }
    }
    fn try_fill_bytes(&mut self, dest: &mut [u8]) -> Result<(), rand::Error> {
        self.fill_bytes(dest);
        Ok(())
    }
}

#[cfg(test)]
mod tests {
    use super::*;
    use rand::SeedableRng;

    #[test]
    fn uncut_stream_is_the_wrapped_stream() {
        let mut a = SimRng::new(ChaCha8Rng::seed_from_u64(7), "t-uncut");
        let mut b = ChaCha8Rng::seed_from_u64(7);
        for _ in 0..1000 {
            assert_eq!(a.gen_range(0..100u32), b.gen_range(0..100u32));
            assert_eq!(a.gen_bool(0.3), b.gen_bool(0.3));
            assert_eq!(a.gen::<u64>(), b.gen::<u64>());
            assert_eq!(a.gen_range(3..=17usize), b.gen_range(3..=17usize));
        }
    }

    #[test]
    fn fills() {
        set_cuts([("t-low".to_string(), (2, Fill::Low)), ("t-high".to_string(), (0, Fill::High))].into_iter().collect());
        let mut lo = SimRng::new(ChaCha8Rng::seed_from_u64(7), "t-low");
        let mut hi = SimRng::new(ChaCha8Rng::seed_from_u64(7), "t-high");
        let _ = (lo.gen_range(0..10), lo.gen_range(0..10));
        for n in [1u64, 2, 3, 7, 100, 1000, u32::MAX as u64, u64::MAX / 3, u64::MAX - 1] {
            assert_eq!(lo.gen_range(5..5 + n.min(u64::MAX - 5)), 5);
            assert_eq!(hi.gen_range(0..n), n - 1);
            assert_eq!(hi.gen_range(0..=n), n);
        }
        for n in [1u32, 2, 3, 7, 100, 1000, u32::MAX - 1] {
            assert_eq!(hi.gen_range(0..n), n - 1);
            assert_eq!(hi.gen_range(0..n as usize), n as usize - 1);
            assert_eq!(hi.gen_range(0..(n.min(200) as u8).max(1)), (n.min(200) as u8).max(1) - 1);
        }
        assert_eq!(hi.gen_range(-5i64..5), 4);
        assert!(!hi.gen_bool(0.9));
        set_cuts(Cuts::new());
    }
}
