//! `SimTcp`: the harness side of hook H2.  A registry of listeners by address whose connections
//! are `SimPipe` pairs; connections carry the identity of the *actor* at each end (ground truth
//! for the admission oracles); the director can refuse, hijack (redirect an address to another
//! listener, i.e. a man in the middle / DNS or BGP hijack) and cut connections.
use std::{
    collections::{BTreeMap, VecDeque},
    io,
    net::SocketAddr,
    pin::Pin,
    rc::Rc,
    sync::{Arc, Mutex},
    task::{Context, Poll, Waker},
};

use tokio::io::{AsyncRead, AsyncWrite, ReadBuf};
use zksync_concurrency::verif::net_shim::{ConnectFuture, SimListener, SimNet, SimStream};

use super::pipe::{self, PipeCfg, SimPipe};

/// One end of a simulated TCP connection.
pub struct TcpEnd {
    pub pipe: SimPipe,
    pub local: SocketAddr,
    pub peer: SocketAddr,
    pub conn: u64,
}

impl AsyncRead for TcpEnd {
    fn poll_read(mut self: Pin<&mut Self>, cx: &mut Context<'_>, buf: &mut ReadBuf<'_>) -> Poll<io::Result<()>> {
        Pin::new(&mut self.pipe).poll_read(cx, buf)
    }
}
impl AsyncWrite for TcpEnd {
    fn poll_write(mut self: Pin<&mut Self>, cx: &mut Context<'_>, buf: &[u8]) -> Poll<io::Result<usize>> {
        Pin::new(&mut self.pipe).poll_write(cx, buf)
    }
    fn poll_flush(mut self: Pin<&mut Self>, cx: &mut Context<'_>) -> Poll<io::Result<()>> {
        Pin::new(&mut self.pipe).poll_flush(cx)
    }
    fn poll_shutdown(mut self: Pin<&mut Self>, cx: &mut Context<'_>) -> Poll<io::Result<()>> {
        Pin::new(&mut self.pipe).poll_shutdown(cx)
    }
}
impl SimStream for TcpEnd {
    fn peer_addr(&self) -> io::Result<SocketAddr> {
        Ok(self.peer)
    }
    fn local_addr(&self) -> io::Result<SocketAddr> {
        Ok(self.local)
    }
}

struct ListenerQ {
    owner: String,
    queue: VecDeque<(TcpEnd, SocketAddr)>,
    waker: Option<Waker>,
}

#[derive(Clone)]
pub struct ConnInfo {
    pub id: u64,
    /// Actor which dialled.
    pub client: String,
    /// Actor owning the listener which accepted.
    pub server: String,
    /// Address which was dialled (before any hijack).
    pub dialled: SocketAddr,
    /// The dialler's end of the connection (what the acceptor sees as the peer address).
    pub client_local: SocketAddr,
    pub tx_c2s: pipe::SharedDir,
    pub tx_s2c: pipe::SharedDir,
}

impl ConnInfo {
    pub fn alive(&self) -> bool {
        let a = self.tx_c2s.lock().unwrap();
        let b = self.tx_s2c.lock().unwrap();
        !(a.write_closed || a.read_closed || b.write_closed || b.read_closed)
    }
}

pub struct NetInner {
    seed: u64,
    listeners: BTreeMap<SocketAddr, Arc<Mutex<ListenerQ>>>,
    next_port: u16,
    next_conn: u64,
    /// Connections to key are redirected to value.
    pub hijack: BTreeMap<SocketAddr, SocketAddr>,
    pub conns: Vec<ConnInfo>,
    /// Pipe configuration for new connections.
    pub fragment: bool,
    /// Name of the actor whose code is running now (set by the harness around spawns; the
    /// simulated nodes are told apart by the address they listen on).
    pub log: Vec<String>,
    /// Scheduler owner tag -> actor: dials and listens made by simulated nodes are attributed to
    /// the node whose task is running.
    pub actors: BTreeMap<u64, String>,
}

#[derive(Clone)]
pub struct Net(pub Arc<Mutex<NetInner>>);

impl Net {
    pub fn new(seed: u64) -> Self {
        Self(Arc::new(Mutex::new(NetInner {
            seed,
            listeners: BTreeMap::new(),
            next_port: 40000,
            next_conn: 0,
            hijack: BTreeMap::new(),
            conns: vec![],
            fragment: false,
            log: vec![],
            actors: BTreeMap::new(),
        })))
    }

    pub fn current_actor(&self) -> String {
        let tag = super::sched::current_tag();
        self.0.lock().unwrap().actors.get(&tag).cloned().unwrap_or_else(|| format!("task-tag-{tag}"))
    }

    pub fn handle(&self) -> Rc<dyn SimNet> {
        Rc::new(self.clone())
    }

    fn do_listen(&self, addr: SocketAddr, owner: &str) -> io::Result<SimL> {
        let mut n = self.0.lock().unwrap();
        if n.listeners.contains_key(&addr) {
            return Err(io::ErrorKind::AddrInUse.into());
        }
        let q = Arc::new(Mutex::new(ListenerQ { owner: owner.into(), queue: VecDeque::new(), waker: None }));
        n.listeners.insert(addr, q.clone());
        Ok(SimL { q, addr, net: self.clone() })
    }

    /// Listens as a harness actor (adversary).
    pub fn listen_as(&self, addr: SocketAddr, owner: &str) -> io::Result<SimL> {
        self.do_listen(addr, owner)
    }

    /// Which actor operates the listener at `addr` (after hijacks)?
    pub fn operator_of(&self, addr: SocketAddr) -> Option<String> {
        let n = self.0.lock().unwrap();
        let a = n.hijack.get(&addr).copied().unwrap_or(addr);
        n.listeners.get(&a).map(|q| q.lock().unwrap().owner.clone())
    }

    fn do_connect(&self, addr: SocketAddr, client: &str, honour_hijack: bool) -> io::Result<TcpEnd> {
        let mut n = self.0.lock().unwrap();
        let target = if honour_hijack { n.hijack.get(&addr).copied().unwrap_or(addr) } else { addr };
        let Some(q) = n.listeners.get(&target).cloned() else {
            n.log.push(format!("{client} dials {addr}: refused"));
            return Err(io::ErrorKind::ConnectionRefused.into());
        };
        n.next_conn += 1;
        let id = n.next_conn;
        n.next_port += 1;
        let local: SocketAddr = format!("127.0.0.1:{}", n.next_port).parse().unwrap();
        let mut rng = super::stream(n.seed, &format!("conn{id}"));
        let (c2s, s2c) = if n.fragment {
            (PipeCfg::random(&mut rng), PipeCfg::random(&mut rng))
        } else {
            (PipeCfg::benign(), PipeCfg::benign())
        };
        let (pc, ps) = pipe::pair(n.seed ^ id, &format!("tcp{id}"), c2s, s2c);
        let server = q.lock().unwrap().owner.clone();
        n.conns.push(ConnInfo { id, client: client.into(), server: server.clone(), dialled: addr, client_local: local, tx_c2s: pc.tx.clone(), tx_s2c: ps.tx.clone() });
        n.log.push(format!("conn {id}: {client} dials {addr} -> listener of {server} at {target}"));
        let mut lq = q.lock().unwrap();
        lq.queue.push_back((TcpEnd { pipe: ps, local: target, peer: local, conn: id }, local));
        if let Some(w) = lq.waker.take() {
            w.wake();
        }
        Ok(TcpEnd { pipe: pc, local, peer: addr, conn: id })
    }

    /// Dials as a harness actor.  The adversary is never subject to its own hijacks.
    pub fn dial_as(&self, addr: SocketAddr, client: &str) -> io::Result<TcpEnd> {
        self.do_connect(addr, client, false)
    }

    pub fn conns(&self) -> Vec<ConnInfo> {
        self.0.lock().unwrap().conns.clone()
    }

    /// Resets (both directions) every connection matching the predicate.
    pub fn cut(&self, pred: impl Fn(&ConnInfo) -> bool) -> usize {
        let conns = self.conns();
        let mut k = 0;
        for c in conns.iter().filter(|c| c.alive() && pred(c)) {
            for d in [&c.tx_c2s, &c.tx_s2c] {
                let mut d = d.lock().unwrap();
                d.cfg.fail_read_at = Some((0, Some(io::ErrorKind::ConnectionReset)));
                d.cfg.fail_write_at = Some((0, io::ErrorKind::ConnectionReset));
                d.write_closed = true;
                d.read_closed = true;
                d.kick();
            }
            k += 1;
        }
        k
    }
}

impl SimNet for Net {
    fn connect(&self, addr: SocketAddr) -> ConnectFuture {
        let me = self.clone();
        Box::pin(async move {
            let client = me.current_actor();
            me.do_connect(addr, &client, true).map(|e| Box::new(e) as Box<dyn SimStream>)
        })
    }
    fn listen(&self, addr: SocketAddr) -> io::Result<Box<dyn SimListener>> {
        let owner = self.current_actor();
        self.do_listen(addr, &owner).map(|l| Box::new(l) as Box<dyn SimListener>)
    }
    fn reserve(&self, _v6: bool) -> SocketAddr {
        let mut n = self.0.lock().unwrap();
        n.next_port += 1;
        format!("127.0.0.1:{}", n.next_port).parse().unwrap()
    }
}

pub struct SimL {
    q: Arc<Mutex<ListenerQ>>,
    addr: SocketAddr,
    net: Net,
}

impl SimL {
    pub async fn accept(&mut self) -> io::Result<(TcpEnd, SocketAddr)> {
        std::future::poll_fn(|cx| self.poll_accept_end(cx)).await
    }
    fn poll_accept_end(&mut self, cx: &mut Context<'_>) -> Poll<io::Result<(TcpEnd, SocketAddr)>> {
        let mut q = self.q.lock().unwrap();
        match q.queue.pop_front() {
            Some(x) => Poll::Ready(Ok(x)),
            None => {
                q.waker = Some(cx.waker().clone());
                Poll::Pending
            }
        }
    }
}

impl Drop for SimL {
    fn drop(&mut self) {
        self.net.0.lock().unwrap().listeners.remove(&self.addr);
    }
}

impl SimListener for SimL {
    fn poll_accept(&mut self, cx: &mut Context<'_>) -> Poll<io::Result<(Box<dyn SimStream>, SocketAddr)>> {
        self.poll_accept_end(cx).map(|r| r.map(|(e, a)| (Box::new(e) as Box<dyn SimStream>, a)))
    }
    fn local_addr(&self) -> io::Result<SocketAddr> {
        Ok(self.addr)
    }
}
