//! Event log of one run: global sequence numbers, rolling fingerprint, bounded tail.
use std::collections::VecDeque;

use super::{hash_bytes, mix};

pub struct Log {
    seq: u64,
    fp: u64,
    keep_all: bool,
    tail_cap: usize,
    tail: VecDeque<String>,
    all: Vec<String>,
}

impl Log {
    pub fn new(keep_all: bool) -> Self {
        Self {
            seq: 0,
            fp: 0,
            keep_all,
            tail_cap: 120,
            tail: VecDeque::new(),
            all: vec![],
        }
    }
    /// Appends an event, returns its sequence number.
    pub fn ev(&mut self, line: String) -> u64 {
        self.seq += 1;
        self.fp = mix(self.fp, hash_bytes(line.as_bytes()));
        let l = format!("{:>6} {}", self.seq, line);
        if self.keep_all {
            self.all.push(l);
        } else {
            if self.tail.len() == self.tail_cap {
                self.tail.pop_front();
            }
            self.tail.push_back(l);
        }
        self.seq
    }
    pub fn seq(&self) -> u64 {
        self.seq
    }
    pub fn fingerprint(&self) -> u64 {
        self.fp
    }
    pub fn lines(&self) -> Vec<String> {
        if self.keep_all {
            self.all.clone()
        } else {
            self.tail.iter().cloned().collect()
        }
    }
}
