//! Entropy seam.  Everything in the process which asks the operating system for randomness -
//! `std`'s `RandomState` (iteration order of every `HashMap` / `HashSet` / `im::HashMap` in the
//! code under test), `OsRng` (ephemeral keys of the noise handshake), the `getrandom` crate -
//! ends in libc's `getrandom`.  The harness binary defines that symbol itself (and exports it,
//! see `.cargo/config.toml`, so that `std`'s weak lookup finds it too): while a simulated run
//! is in progress the bytes come from a counter-based generator seeded by the run's seed.
//!
//! `RandomState` draws its keys once per thread, so every run executes on a fresh thread
//! (`isolated`), and blocking threads of the code under test are started one at a time by the
//! baton scheduler - the order of draws is part of the deterministic execution.
use std::sync::atomic::{AtomicBool, AtomicU64, Ordering};

static ON: AtomicBool = AtomicBool::new(false);
static KEY: AtomicU64 = AtomicU64::new(0);
static CTR: AtomicU64 = AtomicU64::new(0);
static DRAWS: AtomicU64 = AtomicU64::new(0);
pub static DEBUG: AtomicBool = AtomicBool::new(false);

fn splitmix(mut z: u64) -> u64 {
    z = z.wrapping_add(0x9e3779b97f4a7c15);
    z = (z ^ (z >> 30)).wrapping_mul(0xbf58476d1ce4e5b9);
    z = (z ^ (z >> 27)).wrapping_mul(0x94d049bb133111eb);
    z ^ (z >> 31)
}

extern "C" {
    fn syscall(num: std::ffi::c_long, ...) -> std::ffi::c_long;
}
#[cfg(target_arch = "x86_64")]
const SYS_GETRANDOM: std::ffi::c_long = 318;
#[cfg(target_arch = "aarch64")]
const SYS_GETRANDOM: std::ffi::c_long = 278;

/// libc's `getrandom`, interposed.
///
/// # Safety
/// `buf` must be valid for `len` bytes (libc's contract).
#[no_mangle]
pub unsafe extern "C" fn getrandom(buf: *mut std::ffi::c_void, len: usize, flags: std::ffi::c_uint) -> isize {
    if !ON.load(Ordering::SeqCst) {
        return syscall(SYS_GETRANDOM, buf, len, flags) as isize;
    }
    DRAWS.fetch_add(1, Ordering::SeqCst);
    if DEBUG.load(Ordering::SeqCst) {
        let msg = format!("getrandom len={len} flags={flags} ctr={} thread={:?}\n", CTR.load(Ordering::SeqCst), std::thread::current().name());
        let _ = std::io::Write::write_all(&mut std::io::stderr(), msg.as_bytes());
    }
    let key = KEY.load(Ordering::SeqCst);
    let out = std::slice::from_raw_parts_mut(buf as *mut u8, len);
    for chunk in out.chunks_mut(8) {
        let c = CTR.fetch_add(1, Ordering::SeqCst);
        let v = splitmix(key ^ splitmix(c)).to_le_bytes();
        chunk.copy_from_slice(&v[..chunk.len()]);
    }
    len as isize
}

/// Number of times the code asked for entropy since the last `seed`.
pub fn draws() -> u64 {
    DRAWS.load(Ordering::SeqCst)
}

/// Wall-clock budget of one simulated run.  A run which exceeds it is hung (simulated runs take
/// milliseconds to seconds; nothing in them waits for real time).
pub fn run_timeout_s() -> u64 {
    std::env::var("VERIF_RUN_TIMEOUT_S").ok().and_then(|s| s.parse().ok()).unwrap_or(900)
}

/// Runs `f` in a forked child process, on a fresh thread, with the entropy source replaced by a
/// generator seeded with `seed`; the result comes back through a pipe.
///
/// Why a process per run: the code under test and its dependencies keep lazily initialised
/// globals (metric registries, descriptor pools, interned call sites ...).  Whatever run touches
/// them first pays for their construction - including `RandomState` key draws, which shifts
/// the iteration order of every hash map created later in that run.  Forking every run from a
/// parent which has never simulated anything gives all runs the same initial process state, so
/// a seed behaves identically as the 1st or the 1000th run of a worker, in a replay and in a
/// trace.
///
/// A child killed by a signal (memory unsafety in a mutated tree, abort) or exceeding the
/// wall-clock budget takes the calling process down the same way, which the coordinator reports
/// as a `process_aborted` violation attributed to the announced seed.
pub fn isolated<T: Send + serde::Serialize + serde::de::DeserializeOwned>(seed: u64, f: impl FnOnce() -> T + Send) -> T {
    match isolated_or_signal(seed, 0, f) {
        Ok(v) => v,
        Err(_) => unreachable!("signal 0"),
    }
}

/// As `isolated`, but a child killed by `tolerated` (a signal number, 0 = none) is reported to the
/// caller as `Err(signal)` instead of taking this process down.
pub fn isolated_or_signal<T: Send + serde::Serialize + serde::de::DeserializeOwned>(seed: u64, tolerated: i32, f: impl FnOnce() -> T + Send) -> Result<T, i32> {
    if std::env::var("VERIF_NO_FORK").is_ok() {
        return Ok(isolated_thread(seed, f));
    }
    unsafe {
        let mut fds = [0i32; 2];
        assert_eq!(libc::pipe(fds.as_mut_ptr()), 0, "pipe");
        let pid = libc::fork();
        assert!(pid >= 0, "fork");
        if pid == 0 {
            libc::close(fds[0]);
            let r = std::panic::catch_unwind(std::panic::AssertUnwindSafe(|| isolated_thread(seed, f)));
            let code = match r {
                Ok(v) => {
                    let bytes = serde_json::to_vec(&v).expect("serialise result");
                    let mut off = 0;
                    while off < bytes.len() {
                        let n = libc::write(fds[1], bytes[off..].as_ptr().cast(), bytes.len() - off);
                        if n <= 0 {
                            break;
                        }
                        off += n as usize;
                    }
                    0
                }
                Err(_) => 101,
            };
            libc::_exit(code);
        }
        libc::close(fds[1]);
        let deadline = std::time::Instant::now() + std::time::Duration::from_secs(run_timeout_s());
        let mut bytes = vec![];
        let mut buf = [0u8; 65536];
        let mut timed_out = false;
        loop {
            let left = deadline.saturating_duration_since(std::time::Instant::now());
            if left.is_zero() {
                timed_out = true;
                break;
            }
            let mut p = libc::pollfd { fd: fds[0], events: libc::POLLIN, revents: 0 };
            let r = libc::poll(&mut p, 1, left.as_millis().min(1000) as i32);
            if r < 0 {
                continue; // EINTR
            }
            if r == 0 {
                continue;
            }
            let n = libc::read(fds[0], buf.as_mut_ptr().cast(), buf.len());
            if n > 0 {
                bytes.extend_from_slice(&buf[..n as usize]);
            } else if n == 0 {
                break;
            }
        }
        libc::close(fds[0]);
        if timed_out {
            libc::kill(pid, libc::SIGKILL);
        }
        let mut status = 0i32;
        while libc::waitpid(pid, &mut status, 0) < 0 {}
        if timed_out {
            eprintln!("watchdog: run of seed {seed} did not finish within {} s of wall-clock time (hang or deadlock in the code under test)", run_timeout_s());
            std::process::abort();
        }
        if libc::WIFSIGNALED(status) {
            let sig = libc::WTERMSIG(status);
            if tolerated != 0 && sig == tolerated {
                return Err(sig);
            }
            eprintln!("simulation process of seed {seed} was killed by signal {sig}");
            // Die the same way, so that whoever runs this process sees the signal.
            libc::signal(sig, libc::SIG_DFL);
            libc::raise(sig);
            std::process::abort();
        }
        if libc::WEXITSTATUS(status) != 0 {
            eprintln!("simulation process of seed {seed} exited with status {}", libc::WEXITSTATUS(status));
            std::process::exit(libc::WEXITSTATUS(status));
        }
        Ok(serde_json::from_slice(&bytes).expect("result of the simulation process"))
    }
}

/// Runs `f` on a fresh thread with the process's entropy source replaced by a generator seeded
/// with `seed`.
fn isolated_thread<T: Send>(seed: u64, f: impl FnOnce() -> T + Send) -> T {
    KEY.store(splitmix(seed ^ 0xe7_7a0b), Ordering::SeqCst);
    CTR.store(0, Ordering::SeqCst);
    DRAWS.store(0, Ordering::SeqCst);
    super::tape::begin_run();
    ON.store(true, Ordering::SeqCst);
    let r = std::thread::scope(|s| {
        std::thread::Builder::new()
            .name("sim".into())
            .stack_size(64 << 20)
            .spawn_scoped(s, f)
            .expect("spawn simulation thread")
            .join()
    });
    ON.store(false, Ordering::SeqCst);
    match r {
        Ok(v) => v,
        Err(p) => std::panic::resume_unwind(p),
    }
}
