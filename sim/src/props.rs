//! Registry: which engine/mode batches decide which property, and the glue between the
//! engine-independent CLI and the engines.
use serde_json::{json, Value};

use crate::{
    bft,
    cli::{verif_dir, Batch, CaseResult},
};

pub struct Prop {
    pub id: &'static str,
    pub level: &'static str,
    pub rule: &'static str,
    pub batches: fn(&str) -> Vec<Batch>,
    pub expected_probes: fn() -> Vec<&'static str>,
    pub components: fn() -> Value,
    pub assumptions: fn() -> Vec<&'static str>,
}

fn bft_components() -> Value {
    json!({
        "real": ["bft (replica state machine, proposer, run loop, input channel selection)", "engine (EngineManager, block store, persistence tasks)", "concurrency (ctx, scope, prunable_mpsc, watch wrappers)", "roles (messages, certificates, schedule)", "crypto (BLS12-381)", "protobuf (durable replica state goes through the codec)"],
        "stub": ["execution layer + disk (SimEngine)", "consensus network (SimBus: one in-flight copy per destination)", "block gossip (sync action = EngineManager::queue_block of a ledger block)", "clock (ManualClock per node)", "scheduler choice (gate scheduler)", "Byzantine validators (adversary)"],
        "absent": ["network crate transports (see E2/E4 checks)", "RocksDB tool engine", "debug page", "metrics exporters"]
    })
}

fn bft_assumptions() -> Vec<&'static str> {
    vec![
        "Byzantine validators hold at most f = floor((W-1)/5) of the weight",
        "EngineInterface::set_state / queue_next_block are atomic and durable on return (crash-in-write = applied or not applied, never torn)",
        "BLS signatures are unforgeable: the adversary signs only with its own keys",
        "single static validator schedule (epoch 0)",
        "interleavings are explored at await-point granularity on one thread",
    ]
}

fn bft_batches(quick: &[(&'static str, u64)], thorough: &[(&'static str, u64)], tier: &str) -> Vec<Batch> {
    let l = if tier == "thorough" { thorough } else { quick };
    l.iter()
        .map(|(mode, runs)| Batch { engine: "bft", mode, runs: *runs })
        .collect()
}

pub fn all() -> Vec<Prop> {
    vec![
        Prop {
            id: "C01",
            level: "exploration",
            rule: "one evaluation = one simulated cluster execution (seed -> committee, fault mix, plan of director actions, schedule); non-trivial = at least one block committed by a correct node and (except in the fault-free population) at least one fault fired; distinct = distinct event-log fingerprint",
            batches: |t| bft_batches(&[("faultfree", 24), ("swarm", 200)], &[("faultfree", 200), ("swarm", 6000)], t),
            expected_probes: || vec![],
            components: bft_components,
            assumptions: bft_assumptions,
        },
        Prop {
            id: "C03",
            level: "exploration",
            rule: "one evaluation = one simulated cluster execution with crashes/restarts; oracle A (vote history over all incarnations) and oracle B (write-ahead: durable state covers every message at the instant it is sent); non-trivial = at least one restart of a correct node that had voted, distinct = distinct event-log fingerprint",
            batches: |t| bft_batches(&[("faultfree", 16), ("crashy", 200)], &[("faultfree", 100), ("crashy", 6000)], t),
            expected_probes: || vec![],
            components: bft_components,
            assumptions: bft_assumptions,
        },
        Prop {
            id: "C02",
            level: "exploration",
            rule: "history level: one evaluation = one simulated cluster execution; the monitor counts, per (view, block, hash), the weight of correct commit voters plus the whole Byzantine weight (= what the adversary could certify) and checks uniqueness per block number, no later correct vote against or below a potentially certified block, and that every certificate seen in correct nodes' messages/stores is for the ledger block; non-trivial = a block became potentially certified and a timeout certificate was involved; distinct = distinct event-log fingerprint",
            batches: |t| bft_batches(&[("faultfree", 16), ("byzheavy", 200)], &[("faultfree", 100), ("byzheavy", 6000)], t),
            expected_probes: || vec!["timeout_qc_without_high_vote", "timeout_qc_three_or_more_distinct_votes"],
            components: bft_components,
            assumptions: bft_assumptions,
        },
        Prop {
            id: "C05",
            level: "exploration",
            rule: "one evaluation = one simulated cluster execution; after every replica step a snapshot (hook H3) is checked: view / high certificates monotone, current view justified by a held certificate, every held or emitted certificate genuine w.r.t. the run's signing history (not the repo's verify), every emitted message verifies in isolation; non-trivial = at least 3 views reached and a block committed; distinct = distinct event-log fingerprint; abstract state = (event, phase, certificate offsets, vote/certificate relation, message view relative to own, outcome class)",
            batches: |t| bft_batches(&[("faultfree", 24), ("swarm", 200)], &[("faultfree", 200), ("swarm", 6000)], t),
            expected_probes: || vec![],
            components: bft_components,
            assumptions: bft_assumptions,
        },
        Prop {
            id: "C06",
            level: "exploration",
            rule: "one evaluation = an adversarial prefix (all fault kinds) followed by the fair synchronous suffix; progress oracle: every correct node's durable height grows before 5 views with correct leaders have been entered and left by all correct nodes, and views never stop advancing for 4.5 timeouts; non-trivial = the prefix injected at least one fault and left the nodes in different views or heights; distinct = distinct event-log fingerprint",
            batches: |t| bft_batches(&[("live-faultfree", 16), ("live", 160)], &[("live-faultfree", 100), ("live", 5000)], t),
            expected_probes: || vec!["suffix_progress"],
            components: bft_components,
            assumptions: || {
                let mut a = bft_assumptions();
                a.push("fair suffix: all correct nodes up, every message between correct nodes delivered within one round, block sync serves committed blocks, storage prompt, equal clock rates; Byzantine validators silent or misbehaving without flooding");
                a.push("bound L = 5 correct-leader views, calibrated on the unchanged tree then frozen");
                a
            },
        },
        Prop {
            id: "C16",
            level: "exploration",
            rule: "replica half (E1): floods of validly signed votes for far-future views from Byzantine validators; after every replica step the sizes of the vote caches must stay within bounds that depend on the committee size only; non-trivial = at least one flood message delivered; distinct = distinct event-log fingerprint",
            batches: |t| bft_batches(&[("flood", 120)], &[("flood", 3000)], t),
            expected_probes: || vec!["several_partial_certificates"],
            components: bft_components,
            assumptions: bft_assumptions,
        },
        Prop {
            id: "C10",
            level: "exploration",
            rule: "message level (E1): one evaluation = one simulated cluster execution in which Byzantine validators send well-signed consensus messages including absurd field values; a panic anywhere in code under test is a violation; non-trivial = at least one Byzantine message was delivered and at least one block committed; distinct = distinct event-log fingerprint",
            batches: |t| bft_batches(&[("faultfree", 16), ("byzheavy", 160)], &[("faultfree", 100), ("byzheavy", 4000)], t),
            expected_probes: || vec![],
            components: bft_components,
            assumptions: bft_assumptions,
        },
    ]
}

pub fn find(id: &str) -> Option<Prop> {
    all().into_iter().find(|p| p.id == id)
}

fn bft_profile(mode: &str) -> bft::Profile {
    match mode {
        "faultfree" | "live-faultfree" => bft::Profile::FaultFree,
        "small" => bft::Profile::Small,
        _ => bft::Profile::Swarm,
    }
}

fn bft_case(mode: &str, seed: u64) -> (bft::Cfg, Vec<bft::Action>, bft::RunOpts) {
    let mut cfg = bft::gen_cfg(seed, bft_profile(mode));
    if mode == "byzheavy" {
        // Every run has Byzantine validators when the weights allow it, and they talk a lot.
        if cfg.byz.iter().any(|b| *b) {
            cfg.faults.byz = cfg.faults.byz.max(20);
        }
    }
    if mode == "crashy" {
        // Crash-heavy population for C03.
        cfg.faults.crash = cfg.faults.crash.max(4);
        cfg.faults.crash_in_write = cfg.faults.crash_in_write.max(5);
    }
    if mode == "flood" {
        cfg.faults.byz = cfg.faults.byz.max(25);
        cfg.faults.crash = 0;
        cfg.faults.crash_in_write = 0;
    }
    let mut plan = bft::gen_plan(&cfg);
    if mode == "flood" {
        // Half of the Byzantine actions become floods.
        let mut rng = crate::kit::stream(seed, "flood");
        for a in plan.iter_mut() {
            if let bft::Action::Byz { kind, .. } = a {
                if rand::Rng::gen_bool(&mut rng, 0.5) {
                    *kind = 15;
                }
            }
        }
    }
    let mut opts = bft::RunOpts::default();
    if mode.starts_with("live") {
        opts.liveness = true;
        // The prefix is shorter: the suffix costs as much again.
        plan.truncate(plan.len() * 2 / 3);
    }
    (cfg, plan, opts)
}

fn bft_result(mode: &str, cfg: &bft::Cfg, out: &bft::RunOutcome) -> CaseResult {
    let s = &out.stats;
    let faults_fired: u64 = s.faults.values().sum();
    let nontrivial = s.blocks_committed > 0 && (mode == "faultfree" || faults_fired > 0);
    CaseResult {
        seed: cfg.seed,
        mode: mode.to_string(),
        log_fp: s.log_fp,
        sched_fp: s.sched_fp,
        steps: s.steps,
        events: s.events,
        sim_ms: s.sim_ms,
        nontrivial,
        faults: s.faults.clone(),
        probes: s.probes.clone(),
        abstract_states: s.abstract_states.clone(),
        violations: out.violations.clone(),
        panics: s.panics.clone(),
        harness_error: s.harness_error.clone(),
        summary: json!({
            "validators": cfg.weights, "byzantine": cfg.byz, "leaders": cfg.leaders,
            "weighted": cfg.weighted, "frequency": cfg.frequency, "first_block": cfg.first_block,
            "policy": cfg.policy, "persist_now": cfg.persist_now, "actions": cfg.n_actions,
            "blocks_committed": s.blocks_committed, "min_height": s.min_height, "max_height": s.max_height,
            "max_view": s.max_view, "delivered": s.delivered, "tasks_spawned": s.spawned,
        }),
        replay: None,
    }
}

pub fn run_case(engine: &str, mode: &str, seed: u64, keep_log: bool, focus: &str) -> CaseResult {
    match engine {
        "bft" => {
            let (cfg, plan, mut opts) = bft_case(mode, seed);
            opts.keep_log = keep_log;
            opts.focus = if focus == "-" { None } else { Some(focus.to_string()) };
            let out = bft::run_one(&cfg, &plan, &opts);
            bft_result(mode, &cfg, &out)
        }
        _ => panic!("unknown engine {engine}"),
    }
}

pub fn run_case_logged(engine: &str, mode: &str, seed: u64) -> (CaseResult, Vec<String>) {
    match engine {
        "bft" => {
            let (cfg, plan, mut opts) = bft_case(mode, seed);
            opts.keep_log = true;
            let out = bft::run_one(&cfg, &plan, &opts);
            (bft_result(mode, &cfg, &out), out.log)
        }
        _ => panic!("unknown engine {engine}"),
    }
}

/// Writes the replay file for the first violation of `prop` in run (`engine`,`mode`,`seed`).
pub fn write_replay(engine: &str, mode: &str, seed: u64, prop: &str, r: &CaseResult) -> Option<String> {
    let v = r.violations.iter().find(|v| v.property == prop)?;
    let case = match engine {
        "bft" => {
            let (cfg, plan, _) = bft_case(mode, seed);
            json!({"cfg": cfg, "plan": plan})
        }
        _ => return None,
    };
    let dir = verif_dir().join("replays");
    std::fs::create_dir_all(&dir).ok()?;
    let path = dir.join(format!("{prop}-{engine}-{mode}-{seed}.json"));
    let doc = json!({
        "property": prop, "engine": engine, "mode": mode, "seed": seed,
        "case": case,
        "expected": {"class": v.class, "event": v.event, "detail": v.detail},
    });
    std::fs::write(&path, serde_json::to_string(&doc).ok()?).ok()?;
    Some(path.to_string_lossy().to_string())
}

pub fn replay_case(engine: &str, doc: &Value) -> (CaseResult, Vec<String>) {
    match engine {
        "bft" => {
            let cfg: bft::Cfg = serde_json::from_value(doc["case"]["cfg"].clone()).expect("cfg");
            let plan: Vec<bft::Action> = serde_json::from_value(doc["case"]["plan"].clone()).expect("plan");
            let mode = doc["mode"].as_str().unwrap_or("swarm");
            let opts = bft::RunOpts {
                keep_log: true,
                focus: doc["property"].as_str().map(|s| s.to_string()),
                liveness: mode.starts_with("live"),
                ..Default::default()
            };
            let out = bft::run_one(&cfg, &plan, &opts);
            (bft_result(mode, &cfg, &out), out.log)
        }
        _ => panic!("unknown engine {engine}"),
    }
}

/// Shrinks the plan of a replay file while the same violation class persists; writes
/// `<path>.min.json`, confirms it in a fresh process and returns its path.
pub fn minimise_replay(engine: &str, path: &str, prop: &str, class: &str) -> Option<String> {
    if path.is_empty() {
        return None;
    }
    let doc: Value = serde_json::from_str(&std::fs::read_to_string(path).ok()?).ok()?;
    match engine {
        "bft" => {
            let cfg: bft::Cfg = serde_json::from_value(doc["case"]["cfg"].clone()).ok()?;
            let mut plan: Vec<bft::Action> = serde_json::from_value(doc["case"]["plan"].clone()).ok()?;
            let fails = |plan: &[bft::Action]| -> Option<crate::kit::Violation> {
                let out = bft::run_one(
                    &cfg,
                    plan,
                    &bft::RunOpts {
                        focus: Some(prop.to_string()),
                        liveness: doc["mode"].as_str().unwrap_or("").starts_with("live"),
                        ..Default::default()
                    },
                );
                out.violations.into_iter().find(|v| v.property == prop && v.class == class)
            };
            let t0 = std::time::Instant::now();
            let budget = std::time::Duration::from_secs(120);
            let original = plan.len();
            // Truncate after the violation first: actions are executed in order and the run
            // stops at the first violation, so a binary search on the prefix length is exact.
            let mut lo = 0usize;
            let mut hi = plan.len();
            while lo < hi && t0.elapsed() < budget {
                let mid = (lo + hi) / 2;
                if fails(&plan[..mid]).is_some() {
                    hi = mid;
                } else {
                    lo = mid + 1;
                }
            }
            if fails(&plan[..hi]).is_some() {
                plan.truncate(hi);
            }
            // Delta debugging on chunks.
            let mut chunk = (plan.len() / 2).max(1);
            while chunk >= 1 && t0.elapsed() < budget {
                let mut i = 0;
                let mut removed_any = false;
                while i < plan.len() && t0.elapsed() < budget {
                    let end = (i + chunk).min(plan.len());
                    let mut cand = plan.clone();
                    cand.drain(i..end);
                    if fails(&cand).is_some() {
                        plan = cand;
                        removed_any = true;
                    } else {
                        i = end;
                    }
                }
                if chunk == 1 && !removed_any {
                    break;
                }
                chunk = if chunk == 1 { if removed_any { 1 } else { 0 } } else { chunk / 2 };
                if chunk == 0 {
                    break;
                }
            }
            let v = fails(&plan)?;
            let faults = plan.iter().filter(|a| !matches!(a, bft::Action::Run { .. } | bft::Action::Deliver { .. } | bft::Action::DeliverTo { .. })).count();
            let min = json!({
                "property": prop, "engine": engine, "mode": doc["mode"], "seed": doc["seed"],
                "case": {"cfg": cfg, "plan": plan},
                "expected": {"class": v.class, "event": v.event, "detail": v.detail},
                "minimised_from": {"actions": original}, "actions": plan.len(), "non_delivery_actions": faults,
            });
            let out = format!("{}.min.json", path.trim_end_matches(".json"));
            std::fs::write(&out, serde_json::to_string_pretty(&min).ok()?).ok()?;
            // Confirm in a fresh process.
            let exe = std::env::current_exe().ok()?;
            let st = std::process::Command::new(exe)
                .args([prop, "--replay", &out])
                .stdout(std::process::Stdio::null())
                .stderr(std::process::Stdio::null())
                .status()
                .ok()?;
            if st.code() == Some(1) {
                Some(out)
            } else {
                None
            }
        }
        _ => None,
    }
}
