//! Registry: which engine/mode batches decide which property, and the glue between the
//! engine-independent CLI and the engines.
use serde_json::{json, Value};

use crate::{
    bft,
    cli::{verif_dir, Batch, CaseResult},
};

pub struct Prop {
    pub id: &'static str,
    pub level: &'static str,
    pub rule: &'static str,
    pub batches: fn(&str) -> Vec<Batch>,
    pub expected_probes: fn() -> Vec<&'static str>,
    pub components: fn() -> Value,
    pub assumptions: fn() -> Vec<&'static str>,
}

fn bft_components() -> Value {
    json!({
        "real": ["bft (replica state machine, proposer, run loop, input channel selection)", "engine (EngineManager, block store, persistence tasks)", "concurrency (ctx, scope, prunable_mpsc, watch wrappers)", "roles (messages, certificates, schedule)", "crypto (BLS12-381)", "protobuf (durable replica state goes through the codec)"],
        "stub": ["execution layer + disk (SimEngine)", "consensus network (SimBus: one in-flight copy per destination)", "block gossip (sync action = EngineManager::queue_block of a ledger block)", "clock (ManualClock per node)", "scheduler choice (gate scheduler)", "Byzantine validators (adversary)"],
        "absent": ["network crate transports (see E2/E4 checks)", "RocksDB tool engine", "debug page", "metrics exporters"]
    })
}

fn bft_assumptions() -> Vec<&'static str> {
    vec![
        "Byzantine validators hold at most f = floor((W-1)/5) of the weight",
        "EngineInterface::set_state / queue_next_block are atomic and durable on return (crash-in-write = applied or not applied, never torn)",
        "BLS signatures are unforgeable: the adversary signs only with its own keys",
        "single static validator schedule (epoch 0)",
        "interleavings are explored at await-point granularity on one thread",
    ]
}

fn bft_batches(quick: &[(&'static str, u64)], thorough: &[(&'static str, u64)], tier: &str) -> Vec<Batch> {
    let l = if tier == "thorough" { thorough } else { quick };
    l.iter()
        .map(|(mode, runs)| Batch { engine: "bft", mode, runs: *runs })
        .collect()
}

fn prim_components() -> Value {
    json!({
        "real": ["concurrency (ctx, scope, limiter, prunable_mpsc, sync wrappers, watch)", "bft::create_input_channel (filter + selection function)", "tokio sync primitives on a real current-thread runtime"],
        "stub": ["clock (ManualClock advanced by the director)", "scheduler choice (gate scheduler)", "client tasks (generated scripts)"],
        "absent": ["multi-threaded runtime, blocking thread pool"]
    })
}

fn prim_assumptions() -> Vec<&'static str> {
    vec![
        "interleavings are explored at await-point granularity on one thread; data races inside one poll on a multi-threaded runtime are outside the model",
        "time is the ManualClock: every deadline in the primitives reads it",
    ]
}

fn prim_batches(mode: &'static str, quick: u64, thorough: u64, tier: &str) -> Vec<Batch> {
    vec![Batch { engine: "prim", mode, runs: if tier == "thorough" { thorough } else { quick } }]
}

pub fn all() -> Vec<Prop> {
    vec![
        Prop {
            id: "C01",
            level: "exploration",
            rule: "one evaluation = one simulated cluster execution (seed -> committee, fault mix, plan of director actions, schedule); non-trivial = at least one block committed by a correct node and (except in the fault-free population) at least one fault fired; distinct = distinct event-log fingerprint",
            batches: |t| {
                let mut b = bft_batches(&[("faultfree", 24), ("swarm", 200), ("hidden", 160), ("twins", 120)], &[("faultfree", 200), ("swarm", 6000), ("hidden", 2000), ("twins", 3000)], t);
                b.push(Batch { engine: "node", mode: "cluster", runs: if t == "thorough" { 600 } else { 16 } });
                b
            },
            expected_probes: || vec![],
            components: bft_components,
            assumptions: bft_assumptions,
        },
        Prop {
            id: "C03",
            level: "fault_enumeration",
            rule: "one evaluation = one simulated cluster execution with crashes/restarts; oracle A (vote history over all incarnations) and oracle B (write-ahead: durable state covers every message at the instant it is sent); non-trivial = at least one restart of a correct node that had voted, distinct = distinct event-log fingerprint. Population crashenum (fault enumeration): consecutive evaluations are the crash points of one base run (committee of 2-4, about ten views, network faults, late duplicates, Byzantine validators where the weights allow): correct node j dies inside its k-th durable write, write applied or lost, for every j, every k up to 40 and both outcomes, is restarted from its durable state and is shown old messages again; runs are deterministic, so the execution up to the crash is the base run's; non-trivial = the crash fired (points beyond a node's last write or for an absent node do not exist); probe crashenum_base_has_more_writes_than_enumerated counts evaluations of bases not covered exhaustively",
            batches: |t| {
                let mut b = bft_batches(&[("faultfree", 16), ("crashy", 200)], &[("faultfree", 100), ("crashy", 6000)], t);
                // Crash enumeration: every durable write of every correct node of a base run, both outcomes.
                b.push(Batch { engine: "bft", mode: "crashenum", runs: CRASHENUM_POINTS * if t == "thorough" { 150 } else { 3 } });
                b
            },
            expected_probes: || vec!["crashenum_point_fired"],
            components: bft_components,
            assumptions: bft_assumptions,
        },
        Prop {
            id: "C02",
            level: "exploration",
            rule: "history level: one evaluation = one simulated cluster execution; the monitor counts, per (view, block, hash), the weight of correct commit voters plus the whole Byzantine weight (= what the adversary could certify) and checks uniqueness per block number, no later correct vote against or below a potentially certified block, and that every certificate seen in correct nodes' messages/stores is for the ledger block; non-trivial = a block became potentially certified and a timeout certificate was involved; distinct = distinct event-log fingerprint",
            batches: |t| bft_batches(&[("faultfree", 16), ("byzheavy", 200), ("twins", 40)], &[("faultfree", 100), ("byzheavy", 6000), ("twins", 1000)], t),
            expected_probes: || vec!["timeout_qc_without_high_vote", "timeout_qc_three_or_more_distinct_votes"],
            components: bft_components,
            assumptions: bft_assumptions,
        },
        Prop {
            id: "C05",
            level: "exploration",
            rule: "one evaluation = one simulated cluster execution; after every replica step a snapshot (hook H3) is checked: view / high certificates monotone, current view justified by a held certificate, every held or emitted certificate genuine w.r.t. the run's signing history (not the repo's verify), every emitted message verifies in isolation, and a reference replica (sim/src/bft/refmodel.rs, written from the informal specification) makes the same step in lock-step: same verdict (which guard rejects the input), same (view, phase, high vote, high certificates) afterwards, same messages sent, same vote-cache sizes; non-trivial = at least 3 views reached and a block committed; distinct = distinct event-log fingerprint; abstract state = (event, phase, certificate offsets, vote/certificate relation, message view relative to own, outcome class)",
            batches: |t| bft_batches(&[("faultfree", 24), ("swarm", 200), ("byzheavy", 60), ("crashy", 40), ("twins", 40)], &[("faultfree", 200), ("swarm", 6000), ("byzheavy", 1500), ("crashy", 1000), ("twins", 1000)], t),
            expected_probes: || vec!["reference_replica_steps"],
            components: bft_components,
            assumptions: bft_assumptions,
        },
        Prop {
            id: "C06",
            level: "exploration",
            rule: "bft populations: one evaluation = an adversarial prefix (all fault kinds) followed by the fair synchronous suffix; progress oracle: every correct node's durable height grows before 5 views with correct leaders have been entered and left by all correct nodes, and views never stop advancing for 4.5 timeouts; non-trivial = the prefix injected at least one fault and left the nodes in different views or heights. node/cluster population: one evaluation = 4-6 complete nodes (executor::Executor) over simulated TCP which find each other by address gossip and produce blocks while connections are reset, one node is stopped and restarted from its durable state, persistence lags; once faults stop every validator's durable chain must grow by 3 blocks within 1200 simulated seconds; non-trivial = at least 3 blocks committed; distinct = distinct event-log fingerprint",
            batches: |t| {
                let mut b = bft_batches(&[("live-faultfree", 16), ("live", 160)], &[("live-faultfree", 100), ("live", 5000)], t);
                b.push(Batch { engine: "node", mode: "cluster", runs: if t == "thorough" { 1200 } else { 32 } });
                b
            },
            expected_probes: || vec!["suffix_progress", "blocks_committed_end_to_end"],
            components: || {
                let mut c = bft_components();
                c["real"].as_array_mut().unwrap().push(json!("node/cluster population: 4-6 complete executor::Executor nodes (network component with accept loop, noise, handshakes, pools, mux, rpc, address and block gossip, consensus connections; bft; engine manager) over simulated TCP (hook H2) - the whole system in one process"));
                c
            },
            assumptions: || {
                let mut a = bft_assumptions();
                a.push("fair suffix: all correct nodes up, every message between correct nodes delivered within one round, block sync serves committed blocks, storage prompt, equal clock rates; Byzantine validators silent or misbehaving without flooding");
                a.push("bound L = 5 correct-leader views, calibrated on the unchanged tree then frozen");
                a
            },
        },
        Prop {
            id: "C16",
            level: "exploration",
            rule: "channel half (E3): 2-5 sender tasks and the consumer on the real bft::create_input_channel(), every recv compared with a sequential reference model (one entry per sender and kind, replace-and-move-back on strictly higher view, drop otherwise, drop bad signatures, pop front); non-trivial = a pending message was replaced or a stale one dropped. Replica half (E1): floods of validly signed votes for far-future views from Byzantine validators; after every replica step the sizes of the vote caches must stay within bounds that depend on the committee size only; non-trivial = at least one flood message delivered; distinct = distinct event-log fingerprint",
            batches: |t| {
                let mut b = prim_batches("channel", 600, 30_000, t);
                b.extend(bft_batches(&[("flood", 120)], &[("flood", 3000)], t));
                b
            },
            expected_probes: || vec!["several_partial_certificates", "pending_replaced_by_fresher", "stale_dropped"],
            components: bft_components,
            assumptions: bft_assumptions,
        },
        Prop {
            id: "C15",
            level: "exploration",
            rule: "per-RPC-stream half (E2): a real rpc::Service server (real ping server; consensus server with a harness handler that holds requests) over a SimPipe against the real client or a greedy raw-mux client announcing more streams than allowed with no rate limit of its own; OPEN frames read off the server's wire with simulated timestamps and handler starts must obey burst + T/refresh + 1 per window, concurrent handlers <= INFLIGHT. Limiter half (E3): one evaluation = 1-6 client tasks doing acquire(n)/hold/drop/cancel on the real Limiter under a seeded schedule with director-controlled clock advances; oracles: token-bucket bound over every pair of grants, arrival-order service, no leak after cancellations, nothing above burst granted; non-trivial = at least two grants; distinct = distinct event-log fingerprint",
            batches: |t| {
                let mut b = prim_batches("limiter", 12000, 200_000, t);
                b.push(Batch { engine: "pipe", mode: "rpc", runs: if t == "thorough" { 40_000 } else { 1000 } });
                b.push(Batch { engine: "node", mode: "limits", runs: if t == "thorough" { 20_000 } else { 300 } });
                b
            },
            expected_probes: || vec!["several_handler_starts", "ping_rate_limited", "consensus_requests_served_in_situ", "get_block_requests_served_in_situ", "push_tx_requests_served_in_situ", "in_situ_limiter_refilled"],
            components: || json!({
                "real": ["concurrency::limiter", "network::rpc::Service / Server / Client, ping server, mux, frame (via hook H4)", "tokio sync primitives"],
                "stub": ["transport (SimPipe)", "consensus request handler (holds requests like a replica withholding acks)", "greedy client (raw mux + scripted workers)", "clock (ManualClock advanced by the director)", "scheduler choice"],
                "absent": ["noise, TCP, handshakes"]
            }),
            assumptions: prim_assumptions,
        },
        Prop {
            id: "C17",
            level: "exploration",
            rule: "one evaluation = one generated task-tree program (main/background, async/blocking tasks, tasks spawning tasks, joins, nested run!/run_blocking! scopes, cancel(), errors, panics, scope timeouts, caller deadline) on the real scope::run! / run_blocking! under a seeded schedule (blocking tasks are OS threads holding a baton, preempted inside Once::send, set_err and run_blocking); oracle over the start/end/resolved/active event log vs. the scope's return; a worker taken down by a signal (use-after-return of the scope's frame) counts as a violation; non-trivial = at least 2 tasks; distinct = distinct event-log fingerprint. Population prim/abandon (must-complete half): a scope with a root task and 1-3 background tasks that need 4-40 steps to wind down; in 70 % of the runs the harness drops the future of scope::run! 1-3 steps after the root finished while background tasks still run - the expected outcome, known from the seed, is that the simulation process (a forked child) dies with SIGABRT; surviving the drop with a task of the scope still running is the violation; control runs await the future to the end (an abort there is a violation like anywhere else)",
            batches: |t| {
                let mut b = prim_batches("scopes", 24000, 600_000, t);
                // Must-complete half: the caller drops the scope's future while tasks of the scope run.
                b.extend(prim_batches("abandon", 600, 20_000, t));
                b
            },
            expected_probes: || vec!["nested_scope", "several_failures", "task_panicked", "blocking_task", "blocking_top_scope", "abandoned_scope_aborted_the_process", "scope_awaited_to_the_end"],
            components: prim_components,
            assumptions: || {
                let mut a = prim_assumptions();
                a.push("blocking tasks interleave with everything else only at the preemption points of hook H1 (every blocking wait, Once::send, set_err, after the routine of a blocking task returned) - not at arbitrary instructions; half of the programs are purely async and are judged by the exact first-failure rule, programs with blocking tasks by the interval rule B' and the causality rule B'' (sim/src/prim/scopes.rs)");
                a
            },
        },
        Prop {
            id: "C08",
            level: "exploration",
            rule: "one evaluation = a genuine certified chain (real signatures, 1-4 validators, 4-140 blocks, optional pre-genesis prefix) plus invalid variants submitted by 2-6 concurrent tasks to the real EngineManager, readers, and a SimEngine whose persistence lags, jumps ahead by a side channel, prunes, and is restarted from the durable state; non-trivial = at least two blocks handed to the execution layer through the manager; distinct = distinct event-log fingerprint. The same manager also runs under consensus + sync + crashes in every E1 run (gap and conflict oracles are always on there).",
            batches: |t| {
                let mut b = prim_batches("store", 600, 30_000, t);
                b.extend(bft_batches(&[("swarm", 60)], &[("swarm", 1500)], t));
                b.push(Batch { engine: "node", mode: "sync", runs: if t == "thorough" { 6000 } else { 150 } });
                b
            },
            expected_probes: || vec!["blocks_persisted_through_manager", "cache_capacity_crossed"],
            components: || json!({
                "real": ["engine (EngineManager, BlockStore, runner tasks: persisted-state watcher, queueing task)", "roles (block / certificate verification)", "crypto (BLS12-381)", "concurrency"],
                "stub": ["execution layer + disk (SimEngine: lagging, jumping, pruning, failing reads, restarts)", "submitters / readers (generated scripts)", "clock, scheduler choice"],
                "absent": ["consensus in the node/sync population (blocks reach the manager from real peers answering get_block RPCs there)"]
            }),
            assumptions: prim_assumptions,
        },
        Prop {
            id: "C12",
            level: "exploration",
            rule: "handshake half (E4): a real node (victim: accept loop, preface, noise, handshake::inbound / outbound, pools) over simulated TCP, optionally a second honest node, and an adversary holding a Byzantine committee key and outsider keys which follows one of 14 strategies per run: genuine handshake (control), claimed identity with a foreign signature, replay of an honest node's handshake from another session, relay (man in the middle, in both directions, through an address hijack), another chain, outsider on the validator endpoint, the same identity on several sessions, truncated handshakes, answering the victim's dial as somebody else, gossip-endpoint quota and forged static peer; oracle = ground truth of which actor operates the far end of every connection and which secret keys it holds, checked whenever an identity appears in a pool. Pool half (E3): 2-6 tasks open and close 'connections' (insert / hold / remove) on the real PoolWatch with a random allowed set and quota; invariant after every step (one entry per key, outsiders <= quota), admission decisions compared with a reference set model, quota-leak check at the end; non-trivial = at least one refusal; distinct = distinct event-log fingerprint. The handshake half needs the simulated TCP seam (not built in this revision).",
            batches: |t| {
                let mut b = prim_batches("pool", 3000, 200_000, t);
                b.push(Batch { engine: "node", mode: "admission", runs: if t == "thorough" { 20_000 } else { 500 } });
                b
            },
            expected_probes: || vec!["duplicate_connection_refused", "quota_refusal", "identity_admitted"],
            components: || json!({
                "real": ["network::Network + Runner (accept loop, preface, noise, consensus and gossip handshakes, pools, connection maintenance, rpc services)", "engine::EngineManager", "concurrency incl. net::tcp through the simulated-TCP seam (hook H2)", "roles, crypto"],
                "stub": ["TCP (SimTcp: listener registry, SimPipe connections, hijack)", "execution layer (SimEngine)", "address gossip (announcements are handed to the address book through the RPC handler's entry point)", "adversary (raw preface / noise / handshake speaker)", "clock, scheduler choice"],
                "absent": ["bft component (no consensus traffic in this scenario)", "DNS (ip:port hosts)", "debug page"]
            }),
            assumptions: prim_assumptions,
        },
        Prop {
            id: "C18",
            level: "exploration",
            rule: "one evaluation = 2-3 real address books receiving the same announcement batches (valid, stale, equal (version,timestamp), forged signature, altered content, duplicate key in batch, outsiders, extreme versions/timestamps) from concurrent peer tasks in different orders; every batch verdict and the final book compared with a reference map, entries re-verified independently; books compared with each other when convergence is owed; non-trivial = an entry was replaced or a batch rejected",
            batches: |t| {
                let mut b = prim_batches("addrs", 1500, 60_000, t);
                b.push(Batch { engine: "prim", mode: "addrs-node", runs: if t == "thorough" { 20_000 } else { 400 } });
                b
            },
            expected_probes: || vec!["batch_rejected", "entry_replaced_by_newer", "convergence_checked"],
            components: || json!({
                "real": ["network::gossip::ValidatorAddrsWatch / ValidatorAddrs::update (via hook H4)", "roles (NetAddress, signatures)", "crypto"],
                "stub": ["peers (scripted tasks pushing batches)", "scheduler choice"],
                "absent": ["push_validator_addrs RPC transport"]
            }),
            assumptions: prim_assumptions,
        },
        Prop {
            id: "C19",
            level: "exploration",
            rule: "prim/fetch: one evaluation = requester tasks (some cancelled) and 1-5 peer-worker tasks (accept -> succeed / fail / abandon) on the real fetch queue with growing availability announcements, then a fair suffix (everyone has everything, always succeeds); history oracles: single holder, inside announced range, lowest outstanding request within the accept window, re-issue after failure, cancelled requests disappear, completion in the suffix, and at every quiescent point no idle worker whose peer announced the lowest outstanding request (lost wake-up); non-trivial = at least two accepts. node/sync: one evaluation = a victim node fetching a certified chain of 2-13 blocks from 1-2 real source nodes over simulated TCP while sources serve altered blocks / fail reads and connections are reset; oracles: the victim's store is always a prefix of the genuine chain, and once faults stop it holds the whole chain within 600 simulated seconds; non-trivial = at least 3 blocks",
            batches: |t| {
                let mut b = prim_batches("fetch", 3000, 200_000, t);
                b.push(Batch { engine: "node", mode: "sync", runs: if t == "thorough" { 20_000 } else { 400 } });
                b
            },
            expected_probes: || vec!["request_handed_out_again_after_failure", "quiescent_point_checked", "reconnected_after_failure"],
            components: || json!({
                "real": ["network::gossip::fetch::Queue (via hook H4)", "concurrency (scope, watch, oneshot)", "node/sync population: whole network::Network nodes (block-store-state gossip, block fetcher, per-connection get_block client and server, handshakes, noise, mux, rpc) over simulated TCP (hook H2), engine::EngineManager (verification, queueing)"],
                "stub": ["prim/fetch population: peers and requesters (scripted tasks)", "node/sync population: execution layer + disk (SimEngine; sources may serve altered blocks or fail reads), TCP (SimTcp, connection resets)", "clock, scheduler choice"],
                "absent": ["consensus component (nodes run without a validator key in the sync population)"]
            }),
            assumptions: || {
                let mut a = prim_assumptions();
                a.push("every block number is requested by one requester at a time (as the block fetcher does); peers' announced ranges only grow");
                a
            },
        },
        Prop {
            id: "C13",
            level: "fault_enumeration",
            rule: "benign population: one evaluation = one encrypted session (real noise::Stream on both ends of a SimPipe pair) with generated write/flush/shutdown scripts in both directions (sizes 0..1 MB incl. 65519/65520/65521/131040), reader buffer sizes 1..300000, and pipes that fragment, return spurious Pending and exert back-pressure; tamper population: for a base session every (ciphertext frame x tamper kind) pair is enumerated through a relay - 11 kinds: bit flip in length/body/tag, truncation inside/at a frame boundary, drop, duplicate, swap with next, replay of an earlier frame, splice from another session, inserted empty frame; non-trivial = bytes were written (benign) / at least two transport frames (tamper); distinct = distinct event-log fingerprint",
            batches: |t| vec![
                Batch { engine: "pipe", mode: "noise", runs: if t == "thorough" { 40_000 } else { 1200 } },
                Batch { engine: "pipe", mode: "noise-tamper", runs: if t == "thorough" { 1500 } else { 24 } },
            ],
            expected_probes: || vec!["full_size_frame", "fragmented_both_ways", "tampering_detected_as_error"],
            components: || json!({
                "real": ["network::noise::Stream (handshake, frame reassembly, encrypt/decrypt, buffers) via hook H4", "snow (Noise NN, ChaChaPoly)", "tokio::io::split"],
                "stub": ["transport (SimPipe: seeded short reads/writes, spurious Pending, capacity)", "tampering relay", "scheduler choice"],
                "absent": ["TCP, preface"]
            }),
            assumptions: || vec![
                "snow's ephemeral keys come from the OS RNG: ciphertext differs between runs, lengths and plaintext do not; logs contain lengths and plaintext only",
                "tamper enumeration is exhaustive per base run over (frame, kind); byte position inside a frame is one representative per kind",
            ],
        },
        Prop {
            id: "C14",
            level: "exploration",
            rule: "one evaluation = two real Mux endpoints over a SimPipe pair with random capability sets, unequal stream limits (0-4, some capabilities one-sided), tiny frame/buffer/frame-count limits, and 1-3 application workers per queue opening / accepting streams, writing self-describing data in chunks with flushes, reading completely, slowly, partially or not at all; oracles: pairing bijection, in-order complete data, EOS only after the counterpart closed, held streams <= min(limits), unconsumed payload <= read_buffer_size at every step; non-trivial = at least two stream uses; distinct = distinct event-log fingerprint",
            batches: |t| vec![
                Batch { engine: "pipe", mode: "mux", runs: if t == "thorough" { 60_000 } else { 1500 } },
                Batch { engine: "pipe", mode: "muxflood", runs: if t == "thorough" { 10_000 } else { 300 } },
            ],
            expected_probes: || vec!["read_buffer_filled_to_the_limit", "frame_count_limit_reached"],
            components: || json!({
                "real": ["network::mux (Mux::run, handshake, reusable / transient streams, StreamQueue, permits) via hook H4", "network::frame", "concurrency (scope, limiter, channels, ExclusiveLock)"],
                "stub": ["transport (SimPipe)", "applications (generated worker scripts)", "clock, scheduler choice"],
                "absent": ["noise, rpc layer (separate checks)", "peers that ignore flow control at the frame level (covered under C10 byte-level robustness when built)"]
            }),
            assumptions: || vec![
                "the buffer bound is checked in the population where readers read to end-of-stream and opens are not abandoned (data addressed to an abandoned stream is discarded by the mux, which the application-level accounting cannot see)",
                "interleavings at await-point granularity",
            ],
        },
        Prop {
            id: "C10",
            level: "exploration",
            rule: "byte level (E2): a scripted raw peer against the real noise handshake / multiplexer / rpc server over a SimPipe (optionally through a real noise session): garbage handshakes, mux header values (all 2^16 in the thorough tier, one connection each), DATA length fields 0/1/max, frames and connections cut at arbitrary offsets, rpc length prefixes 0/1/max/max+1/2^32-1, rpc payloads decoding into requests with extreme timestamps and numbers, random protobuf; any panic is a violation. Message level (E1): one evaluation = one simulated cluster execution in which Byzantine validators send well-signed consensus messages including absurd field values; a panic anywhere in code under test is a violation; non-trivial = at least one Byzantine message was delivered and at least one block committed; distinct = distinct event-log fingerprint",
            batches: |t| {
                let mut b = bft_batches(&[("faultfree", 16), ("byzheavy", 160), ("stops", 200)], &[("faultfree", 100), ("byzheavy", 4000), ("stops", 3000)], t);
                b.push(Batch { engine: "pipe", mode: "bytes", runs: if t == "thorough" { 200_000 } else { 6000 } });
                // All 2^16 mux header values in the thorough tier (run i sends header value i).
                b.push(Batch { engine: "pipe", mode: "mux-header", runs: if t == "thorough" { 65536 } else { 4096 } });
                b.push(Batch { engine: "pipe", mode: "muxflood", runs: if t == "thorough" { 20_000 } else { 300 } });
                // Whole node, authenticated greedy peer which also announces absurd block-store ranges.
                b.push(Batch { engine: "node", mode: "limits", runs: if t == "thorough" { 10_000 } else { 300 } });
                b
            },
            expected_probes: || vec![],
            components: bft_components,
            assumptions: bft_assumptions,
        },
    ]
}

pub fn find(id: &str) -> Option<Prop> {
    all().into_iter().find(|p| p.id == id)
}

fn bft_profile(mode: &str) -> bft::Profile {
    match mode {
        "faultfree" | "live-faultfree" => bft::Profile::FaultFree,
        "small" => bft::Profile::Small,
        _ => bft::Profile::Swarm,
    }
}

/// Crash enumeration (C03): points per base run = 4 nodes x 2 outcomes x `CRASHENUM_K` writes.
pub const CRASHENUM_K: u64 = 40;
pub const CRASHENUM_POINTS: u64 = 8 * CRASHENUM_K;

fn bft_case(mode: &str, seed: u64) -> (bft::Cfg, Vec<bft::Action>, bft::RunOpts) {
    if mode == "crashenum" {
        return crashenum_case(seed);
    }
    let mut cfg = bft::gen_cfg(seed, bft_profile(mode));
    if mode == "byzheavy" {
        // Every run has Byzantine validators when the weights allow it, and they talk a lot.
        if cfg.byz.iter().any(|b| *b) {
            cfg.faults.byz = cfg.faults.byz.max(20);
        }
    }
    let stops = mode == "stops";
    if stops {
        // Persistence lag: a replica waiting for `wait_until_persisted` is the place where a
        // cancellation and a wake-up can coincide.
        if seed % 10 < 7 {
            cfg.persist_now = false;
        }
        // Newest-ready-first scheduling lets a cancellation cascade overtake a task that was
        // woken earlier (what a busy multi-threaded runtime does to an unlucky task).
        if seed % 4 != 0 {
            cfg.policy = crate::kit::Policy::Lifo(80 + (seed % 19) as u8);
        }
        cfg.faults.short_steps = cfg.faults.short_steps.max(25);
        cfg.faults.crash = 0;
        cfg.faults.crash_in_write = 0;
    }
    if mode == "crashy" {
        // Crash-heavy population for C03.
        cfg.faults.crash = cfg.faults.crash.max(4);
        cfg.faults.crash_in_write = cfg.faults.crash_in_write.max(5);
    }
    if mode == "flood" {
        cfg.faults.byz = cfg.faults.byz.max(25);
        cfg.faults.crash = 0;
        cfg.faults.crash_in_write = 0;
    }
    if mode == "hidden" {
        // Directed population for agreement: a committee of 6-8 equal validators, exactly one of
        // them Byzantine and talkative, mild message loss, and "hidden commit" episodes (below).
        let mut rng = crate::kit::stream(seed, "hidden-cfg");
        let n = rand::Rng::gen_range(&mut rng, 6..=8usize);
        cfg.weights = vec![1; n];
        cfg.leaders = vec![true; n];
        cfg.byz = (0..n).map(|i| i == (seed % n as u64) as usize).collect();
        cfg.weighted = false;
        cfg.frequency = 1;
        cfg.faults = bft::cluster::FaultMix::none();
        cfg.faults.byz = rand::Rng::gen_range(&mut rng, 8..25);
        cfg.faults.drop = rand::Rng::gen_range(&mut rng, 0..6);
        cfg.faults.reorder = rand::Rng::gen_range(&mut rng, 0..30);
        cfg.faults.crash_in_write = if rand::Rng::gen_bool(&mut rng, 0.4) { 2 } else { 0 };
        cfg.n_actions = rand::Rng::gen_range(&mut rng, 500..1400);
    }
    if mode == "twins" {
        // Twins (Bano et al.): the Byzantine validator is 2-3 instances of the real replica code
        // sharing one key, each with its own disk and its own audience among the correct nodes -
        // well-timed, rule-abiding equivocation.  The scripted adversary speaks under the same key
        // as well.  Committees of 6-9 in which one validator may be faulty (equal or unequal weights).
        let mut rng = crate::kit::stream(seed, "twins-cfg");
        let n = rand::Rng::gen_range(&mut rng, 6..=9usize);
        let heavy = rand::Rng::gen_bool(&mut rng, 0.3);
        let b = (seed % n as u64) as usize;
        cfg.weights = (0..n).map(|i| if heavy && i != b { rand::Rng::gen_range(&mut rng, 1..=2) } else { 1 }).collect();
        cfg.leaders = (0..n).map(|i| i == b || rand::Rng::gen_range(&mut rng, 0..100) < 85).collect();
        if !(0..n).any(|i| cfg.leaders[i] && i != b) {
            cfg.leaders[(b + 1) % n] = true;
        }
        cfg.byz = (0..n).map(|i| i == b).collect();
        cfg.twins = if rand::Rng::gen_bool(&mut rng, 0.75) { 2 } else { 3 };
        cfg.faults.byz = if rand::Rng::gen_bool(&mut rng, 0.5) { rand::Rng::gen_range(&mut rng, 3..15) } else { 0 };
        cfg.faults.crash = cfg.faults.crash.min(2);
        cfg.faults.crash_in_write = cfg.faults.crash_in_write.min(2);
        cfg.n_actions = rand::Rng::gen_range(&mut rng, 500..1500);
    }
    let mut plan = bft::gen_plan(&cfg);
    if mode == "twins" {
        let mut rng = crate::kit::stream(seed, "twins");
        let mut at = rand::Rng::gen_range(&mut rng, 10..80usize);
        while at < plan.len() {
            plan.insert(at, bft::Action::Retwin { mask: rand::Rng::gen(&mut rng) });
            at += rand::Rng::gen_range(&mut rng, 30..260usize);
        }
    }
    if mode == "hidden" {
        // Episodes: the commit votes of a view reach one correct node only, that node is cut off,
        // the others time out and go on; much later the network heals.  If the rules which force
        // the re-proposal of a possibly finalized block hold, everybody ends up with the same
        // block at that height.
        let mut rng = crate::kit::stream(seed, "hidden");
        let n = cfg.weights.len() as u32;
        let vt = cfg.view_timeout_ms as u32;
        let mut at = rand::Rng::gen_range(&mut rng, 30..120usize);
        while at + 10 < plan.len() {
            let to = rand::Rng::gen_range(&mut rng, 0..n);
            let len = rand::Rng::gen_range(&mut rng, 60..260usize);
            let ep = vec![bft::Action::HideCommit { to, byz_next: rand::Rng::gen_bool(&mut rng, 0.5) }];
            let _ = vt;
            for (k, a) in ep.into_iter().enumerate() {
                plan.insert(at + k, a);
            }
            let heal = (at + len).min(plan.len());
            plan.insert(heal, bft::Action::Heal);
            // Timers fire again while the group is on its own.
            for _ in 0..rand::Rng::gen_range(&mut rng, 1..4) {
                let p = rand::Rng::gen_range(&mut rng, at + 8..heal.max(at + 9));
                plan.insert(p.min(plan.len()), bft::Action::Tick { node: n, ms: vt * rand::Rng::gen_range(&mut rng, 101..140) / 100 });
            }
            at = heal + rand::Rng::gen_range(&mut rng, 40..200usize);
        }
    }
    if stops {
        // Graceful stops (context cancellation, as on operator stop or at the end of an epoch) in
        // the middle of message processing, each followed by a restart.
        let mut rng = crate::kit::stream(seed, "stops");
        let n = cfg.weights.len() as u32;
        for _ in 0..rand::Rng::gen_range(&mut rng, 3..9) {
            // The stop lands a few task steps after a delivery, i.e. while messages are being
            // processed and wake-ups are pending.
            let mut at = rand::Rng::gen_range(&mut rng, 0..plan.len().max(1));
            let want_persist = rand::Rng::gen_bool(&mut rng, 0.6);
            while at + 1 < plan.len()
                && !(matches!(plan[at], bft::Action::Persist { .. })
                    || (!want_persist && matches!(plan[at], bft::Action::Deliver { .. } | bft::Action::DeliverTo { .. })))
            {
                at += 1;
            }
            if at + 1 >= plan.len() {
                continue;
            }
            if let bft::Action::Run { steps } = &mut plan[at + 1] {
                *steps = rand::Rng::gen_range(&mut rng, 1..14);
            }
            let node = match &plan[at] {
                bft::Action::Persist { node } if *node < n => *node,
                bft::Action::DeliverTo { to, .. } if rand::Rng::gen_bool(&mut rng, 0.7) => *to,
                _ => rand::Rng::gen_range(&mut rng, 0..n),
            };
            plan.insert(at + 2, bft::Action::Stop { node });
            plan.insert(at + 3, bft::Action::Run { steps: 0 });
            let back = (at + 4 + rand::Rng::gen_range(&mut rng, 2..40)).min(plan.len());
            plan.insert(back, bft::Action::Restart { node });
        }
    }
    if mode == "flood" {
        // Half of the Byzantine actions become floods.
        let mut rng = crate::kit::stream(seed, "flood");
        for a in plan.iter_mut() {
            if let bft::Action::Byz { kind, .. } = a {
                if rand::Rng::gen_bool(&mut rng, 0.5) {
                    *kind = 15;
                }
            }
        }
    }
    let mut opts = bft::RunOpts::default();
    if mode.starts_with("live") {
        opts.liveness = true;
        // The prefix is shorter: the suffix costs as much again.
        plan.truncate(plan.len() * 2 / 3);
    }
    (cfg, plan, opts)
}

/// C03 crash enumeration.  `seed = base << 16 | point`: the base run (committee of 2-4, about
/// ten views, network faults, late duplicates, Byzantine validators where the weights allow,
/// *no* crash of its own) is a function of `base` alone; `point` names the one crash that is
/// added: the `point % 4`-th correct node dies inside its durable write number `point / 8 + 1`, with the write
/// applied (`point / 4 % 2 == 1`) or lost.  The node is restarted a few actions later, and old
/// messages are delivered again afterwards.  Since runs are deterministic the execution up to
/// the crash is the base run's: the points of one base are "a crash at every durable write of
/// that history, both outcomes".  Point `CRASHENUM_POINTS - 1` ... beyond the node's last write
/// never fire (run = base run).
fn crashenum_case(seed: u64) -> (bft::Cfg, Vec<bft::Action>, bft::RunOpts) {
    let base = seed >> 16;
    let point = seed & 0xffff;
    let mut cfg = bft::gen_cfg(base, bft::Profile::Small);
    let mut rng = crate::kit::stream(base, "crashenum");
    if cfg.weights.len() < 2 {
        cfg.weights = vec![1, 1, rand::Rng::gen_range(&mut rng, 1..3)];
        cfg.leaders = vec![true; 3];
        cfg.byz = vec![false; 3];
    }
    cfg.seed = base;
    cfg.faults.crash = 0;
    cfg.faults.crash_in_write = 0;
    cfg.faults.disk_error = 0;
    cfg.faults.partition = 0;
    cfg.faults.drop = cfg.faults.drop.min(3);
    cfg.n_actions = rand::Rng::gen_range(&mut rng, 90..170);
    let n = cfg.weights.len() as u32;
    let mut plan = bft::gen_plan(&cfg);
    // The point's node: the (point % 4)-th *correct* validator.
    let correct: Vec<u32> = (0..n).filter(|i| !cfg.byz[*i as usize]).collect();
    let node = correct.get((point % 4) as usize).copied().unwrap_or(n);
    let applied = point / 4 % 2 == 1;
    let k = point / 8 + 1;
    if node < n {
        cfg.arm = Some((node, k, applied));
        // Restart soon after the crash wherever it lands (restarting a live node is a no-op),
        // then late duplicates of old messages for the restarted node and the others.
        let mut at = rand::Rng::gen_range(&mut rng, 3..12usize);
        while at < plan.len() {
            plan.insert(at, bft::Action::Restart { node });
            plan.insert(at + 1, bft::Action::Run { steps: 0 });
            for j in 0..rand::Rng::gen_range(&mut rng, 1..4usize) {
                let to = if rand::Rng::gen_bool(&mut rng, 0.7) { node } else { rand::Rng::gen_range(&mut rng, 0..n) };
                plan.insert(at + 2 + 2 * j, bft::Action::Replay { k: rand::Rng::gen(&mut rng), to });
                plan.insert(at + 3 + 2 * j, bft::Action::Run { steps: 0 });
            }
            at += rand::Rng::gen_range(&mut rng, 14..40usize);
        }
    } else {
        // No such node in this committee: the point does not exist.
        plan.clear();
    }
    (cfg, plan, bft::RunOpts::default())
}

fn bft_result(mode: &str, cfg: &bft::Cfg, out: &bft::RunOutcome, case_seed: u64) -> CaseResult {
    let s = &out.stats;
    let faults_fired: u64 = s.faults.values().sum();
    let mut nontrivial = s.blocks_committed > 0 && (mode == "faultfree" || faults_fired > 0);
    let mut probes = s.probes.clone();
    if mode == "crashenum" {
        // A point counts if its crash fired; a base run is covered exhaustively if no node made
        // more than CRASHENUM_K durable writes.
        let fired = s.faults.keys().any(|k| k.starts_with("crash_in_write"));
        nontrivial = fired;
        *probes.entry(if fired { "crashenum_point_fired" } else { "crashenum_point_beyond_last_write_or_absent_node" }.to_string()).or_default() += 1;
        if s.writes.iter().any(|w| *w > CRASHENUM_K) {
            *probes.entry("crashenum_base_has_more_writes_than_enumerated".to_string()).or_default() += 1;
        }
    }
    CaseResult {
        seed: case_seed,
        mode: mode.to_string(),
        log_fp: s.log_fp,
        sched_fp: s.sched_fp,
        steps: s.steps,
        events: s.events,
        sim_ms: s.sim_ms,
        nontrivial,
        faults: s.faults.clone(),
        probes,
        abstract_states: s.abstract_states.clone(),
        violations: out.violations.clone(),
        panics: s.panics.clone(),
        harness_error: s.harness_error.clone(),
        summary: json!({
            "validators": cfg.weights, "byzantine": cfg.byz, "leaders": cfg.leaders,
            "weighted": cfg.weighted, "frequency": cfg.frequency, "first_block": cfg.first_block,
            "policy": cfg.policy, "persist_now": cfg.persist_now, "actions": cfg.n_actions,
            "blocks_committed": s.blocks_committed, "min_height": s.min_height, "max_height": s.max_height,
            "max_view": s.max_view, "delivered": s.delivered, "tasks_spawned": s.spawned,
            "twins": cfg.twins, "armed_crash": cfg.arm, "durable_writes": s.writes,
        }),
        replay: None,
        draws: Default::default(),
    }
}

pub fn run_case(engine: &str, mode: &str, seed: u64, keep_log: bool, focus: &str) -> CaseResult {
    match engine {
        "bft" => {
            let (cfg, plan, mut opts) = bft_case(mode, seed);
            opts.keep_log = keep_log;
            opts.focus = if focus == "-" { None } else { Some(focus.to_string()) };
            let out = bft::run_one(&cfg, &plan, &opts);
            bft_result(mode, &cfg, &out, seed)
        }
        "prim" => crate::prim::run_case(mode, seed, keep_log).0,
        "pipe" => crate::pipes::run_case(mode, seed, keep_log).0,
        "node" => crate::node::run_case(mode, seed, keep_log).0,
        _ => panic!("unknown engine {engine}"),
    }
}

pub fn run_case_logged(engine: &str, mode: &str, seed: u64) -> (CaseResult, Vec<String>) {
    match engine {
        "bft" => {
            let (cfg, plan, mut opts) = bft_case(mode, seed);
            opts.keep_log = true;
            let out = bft::run_one(&cfg, &plan, &opts);
            (bft_result(mode, &cfg, &out, seed), out.log)
        }
        "prim" => crate::prim::run_case(mode, seed, true),
        "pipe" => crate::pipes::run_case(mode, seed, true),
        "node" => crate::node::run_case(mode, seed, true),
        _ => panic!("unknown engine {engine}"),
    }
}

/// Writes the replay file for the first violation of `prop` in run (`engine`,`mode`,`seed`).
pub fn write_replay(engine: &str, mode: &str, seed: u64, prop: &str, r: &CaseResult) -> Option<String> {
    let v = r.violations.iter().find(|v| v.property == prop)?;
    let case = match engine {
        "bft" => {
            let (cfg, plan, _) = bft_case(mode, seed);
            json!({"cfg": cfg, "plan": plan})
        }
        // Primitive scenarios are a pure function of (mode, seed); the trace is attached.
        "prim" => {
            let (_, log) = crate::prim::run_case(mode, seed, true);
            json!({"trace": log})
        }
        "pipe" => {
            let (_, log) = crate::pipes::run_case(mode, seed, true);
            json!({"trace": log})
        }
        "node" => {
            let (_, log) = crate::node::run_case(mode, seed, true);
            json!({"trace": log})
        }
        _ => return None,
    };
    let dir = verif_dir().join("replays");
    std::fs::create_dir_all(&dir).ok()?;
    let path = dir.join(format!("{prop}-{engine}-{mode}-{seed}.json"));
    let doc = json!({
        "property": prop, "engine": engine, "mode": mode, "seed": seed,
        "case": case,
        "expected": {"class": v.class, "event": v.event, "detail": v.detail},
    });
    std::fs::write(&path, serde_json::to_string(&doc).ok()?).ok()?;
    Some(path.to_string_lossy().to_string())
}

pub fn replay_case(engine: &str, doc: &Value) -> (CaseResult, Vec<String>) {
    if let Ok(cuts) = serde_json::from_value::<crate::kit::tape::Cuts>(doc["case"]["cuts"].clone()) {
        crate::kit::tape::set_cuts(cuts);
    }
    match engine {
        "prim" => crate::prim::run_case(doc["mode"].as_str().unwrap_or(""), doc["seed"].as_u64().unwrap_or(0), true),
        "pipe" => crate::pipes::run_case(doc["mode"].as_str().unwrap_or(""), doc["seed"].as_u64().unwrap_or(0), true),
        "node" => crate::node::run_case(doc["mode"].as_str().unwrap_or(""), doc["seed"].as_u64().unwrap_or(0), true),
        "bft" => {
            let cfg: bft::Cfg = serde_json::from_value(doc["case"]["cfg"].clone()).expect("cfg");
            let plan: Vec<bft::Action> = serde_json::from_value(doc["case"]["plan"].clone()).expect("plan");
            let mode = doc["mode"].as_str().unwrap_or("swarm");
            let opts = bft::RunOpts {
                keep_log: true,
                focus: doc["property"].as_str().map(|s| s.to_string()),
                liveness: mode.starts_with("live"),
                ..Default::default()
            };
            let out = bft::run_one(&cfg, &plan, &opts);
            (bft_result(mode, &cfg, &out, doc["seed"].as_u64().unwrap_or(cfg.seed)), out.log)
        }
        _ => panic!("unknown engine {engine}"),
    }
}

/// Shrinks the plan of a replay file while the same violation class persists; writes
/// `<path>.min.json`, confirms it in a fresh process and returns its path.
pub fn minimise_replay(engine: &str, path: &str, prop: &str, class: &str) -> Option<String> {
    if path.is_empty() {
        return None;
    }
    let doc: Value = serde_json::from_str(&std::fs::read_to_string(path).ok()?).ok()?;
    match engine {
        "bft" => {
            let cfg: bft::Cfg = serde_json::from_value(doc["case"]["cfg"].clone()).ok()?;
            let mut plan: Vec<bft::Action> = serde_json::from_value(doc["case"]["plan"].clone()).ok()?;
            let fails = |plan: &[bft::Action]| -> Option<crate::kit::Violation> {
                let out = bft::run_one(
                    &cfg,
                    plan,
                    &bft::RunOpts {
                        focus: Some(prop.to_string()),
                        liveness: doc["mode"].as_str().unwrap_or("").starts_with("live"),
                        ..Default::default()
                    },
                );
                out.violations.into_iter().find(|v| v.property == prop && v.class == class)
            };
            let t0 = std::time::Instant::now();
            let budget = std::time::Duration::from_secs(120);
            let original = plan.len();
            // Truncate after the violation first: actions are executed in order and the run
            // stops at the first violation, so a binary search on the prefix length is exact.
            let mut lo = 0usize;
            let mut hi = plan.len();
            while lo < hi && t0.elapsed() < budget {
                let mid = (lo + hi) / 2;
                if fails(&plan[..mid]).is_some() {
                    hi = mid;
                } else {
                    lo = mid + 1;
                }
            }
            if fails(&plan[..hi]).is_some() {
                plan.truncate(hi);
            }
            // Delta debugging on chunks.
            let mut chunk = (plan.len() / 2).max(1);
            while chunk >= 1 && t0.elapsed() < budget {
                let mut i = 0;
                let mut removed_any = false;
                while i < plan.len() && t0.elapsed() < budget {
                    let end = (i + chunk).min(plan.len());
                    let mut cand = plan.clone();
                    cand.drain(i..end);
                    if fails(&cand).is_some() {
                        plan = cand;
                        removed_any = true;
                    } else {
                        i = end;
                    }
                }
                if chunk == 1 && !removed_any {
                    break;
                }
                chunk = if chunk == 1 { if removed_any { 1 } else { 0 } } else { chunk / 2 };
                if chunk == 0 {
                    break;
                }
            }
            let v = fails(&plan)?;
            let faults = plan.iter().filter(|a| !matches!(a, bft::Action::Run { .. } | bft::Action::Deliver { .. } | bft::Action::DeliverTo { .. })).count();
            let min = json!({
                "property": prop, "engine": engine, "mode": doc["mode"], "seed": doc["seed"],
                "case": {"cfg": cfg, "plan": plan},
                "expected": {"class": v.class, "event": v.event, "detail": v.detail},
                "minimised_from": {"actions": original}, "actions": plan.len(), "non_delivery_actions": faults,
            });
            let out = format!("{}.min.json", path.trim_end_matches(".json"));
            std::fs::write(&out, serde_json::to_string_pretty(&min).ok()?).ok()?;
            // Confirm in a fresh process.
            let exe = std::env::current_exe().ok()?;
            let st = std::process::Command::new(exe)
                .args([prop, "--replay", &out])
                .stdout(std::process::Stdio::null())
                .stderr(std::process::Stdio::null())
                .status()
                .ok()?;
            if st.code() == Some(1) {
                Some(out)
            } else {
                None
            }
        }
        "prim" | "pipe" | "node" => minimise_cuts(engine, path, prop, class, &doc),
        _ => None,
    }
}

/// Minimisation for the engines whose scenario is a pure function of (mode, seed): stream by
/// stream (scheduler picks, director actions, transport decisions, workload ...), find the
/// smallest number of seeded draws after which every further draw can be the simplest one
/// (`kit::tape`) while the same violation class still fires.  Writes `<path>.min.json`
/// (seed + cuts + the event log of the minimised run) and confirms it in a fresh process.
fn minimise_cuts(engine: &str, path: &str, prop: &str, class: &str, doc: &Value) -> Option<String> {
    use crate::kit::tape::{self, Cuts, Fill};
    let mode = doc["mode"].as_str()?.to_string();
    let seed = doc["seed"].as_u64()?;
    let t0 = std::time::Instant::now();
    let budget = std::time::Duration::from_secs(std::env::var("VERIF_MIN_BUDGET_S").ok().and_then(|s| s.parse().ok()).unwrap_or(90));
    let mut attempts = 0u64;
    let mut run = |cuts: &Cuts| -> Option<(CaseResult, crate::kit::Violation)> {
        attempts += 1;
        tape::set_cuts(cuts.clone());
        let r = run_case(engine, &mode, seed, false, prop);
        tape::set_cuts(Cuts::new());
        let v = r.violations.iter().find(|v| v.property == prop && v.class == class).cloned()?;
        Some((r, v))
    };
    let (base, _) = run(&Cuts::new())?;
    let total_before: u64 = base.draws.values().sum();
    let mut cuts = Cuts::new();
    let mut draws = base.draws.clone();
    // Largest streams first: they carry most of the entropy.
    let mut labels: Vec<(String, u64)> = base.draws.iter().map(|(k, v)| (k.clone(), *v)).collect();
    labels.sort_by(|a, b| b.1.cmp(&a.1).then(a.0.cmp(&b.0)));
    for (label, _) in labels {
        if t0.elapsed() > budget {
            break;
        }
        let n = draws.get(&label).copied().unwrap_or(0);
        if n == 0 {
            continue;
        }
        let mut best: Option<(u64, Fill, CaseResult)> = None;
        for fill in [Fill::High, Fill::Low] {
            // Cheapest first: the whole stream replaced.
            let mut c = cuts.clone();
            c.insert(label.clone(), (0, fill));
            if let Some((r, _)) = run(&c) {
                best = Some((0, fill, r));
                break;
            }
            // Binary search for the shortest seeded prefix (the predicate need not be monotone:
            // the result is a local minimum which is confirmed below).
            let (mut lo, mut hi) = (1u64, n);
            let mut found: Option<(u64, CaseResult)> = None;
            while lo < hi && t0.elapsed() < budget {
                let mid = (lo + hi) / 2;
                c.insert(label.clone(), (mid, fill));
                match run(&c) {
                    Some((r, _)) => {
                        found = Some((mid, r));
                        hi = mid;
                    }
                    None => lo = mid + 1,
                }
            }
            if let Some((k, r)) = found {
                if best.as_ref().map(|b| k < b.0).unwrap_or(true) {
                    best = Some((k, fill, r));
                }
            }
        }
        if let Some((k, fill, r)) = best {
            cuts.insert(label.clone(), (k, fill));
            draws = r.draws.clone();
        }
    }
    if cuts.is_empty() {
        return None;
    }
    let (_, v) = run(&cuts)?;
    let seeded_after: u64 = draws.iter().map(|(l, n)| cuts.get(l).map(|c| c.0.min(*n)).unwrap_or(*n)).sum();
    tape::set_cuts(cuts.clone());
    let (_, log) = run_case_logged(engine, &mode, seed);
    tape::set_cuts(Cuts::new());
    let min = json!({
        "property": prop, "engine": engine, "mode": mode, "seed": seed,
        "case": {"cuts": cuts, "trace": log},
        "expected": {"class": v.class, "event": v.event, "detail": v.detail},
        "minimised_from": {"seeded_draws": total_before, "streams": base.draws.len()},
        "seeded_draws": seeded_after, "streams_cut": cuts.len(), "attempts": attempts,
    });
    let out = format!("{}.min.json", path.trim_end_matches(".json"));
    std::fs::write(&out, serde_json::to_string_pretty(&min).ok()?).ok()?;
    let exe = std::env::current_exe().ok()?;
    let st = std::process::Command::new(exe)
        .args([prop, "--replay", &out])
        .stdout(std::process::Stdio::null())
        .stderr(std::process::Stdio::null())
        .status()
        .ok()?;
    if st.code() == Some(1) {
        Some(out)
    } else {
        None
    }
}
