//! The adversary: plays every Byzantine validator.  It owns their secret keys, sees every
//! message any correct node ever put on the bus, and may sign anything with its own keys.
use std::collections::{BTreeMap, BTreeSet};

use bit_vec::BitVec;
use rand::{seq::SliceRandom, Rng};
use crate::kit::SimRng as ChaCha8Rng;
use zksync_consensus_roles::validator::{self, v2};

use super::hub::{Committee, Hub};

type Out = Vec<(usize, validator::Signed<validator::ConsensusMsg>)>;

pub struct Adversary {
    pub c: Committee,
    rng: ChaCha8Rng,
    byz: Vec<usize>,
    /// Justifications seen, by the view they justify.
    pub justs: BTreeMap<u64, Vec<v2::ProposalJustification>>,
    /// Commit votes seen: vote -> signer -> signed message.
    pub commits: BTreeMap<v2::ReplicaCommit, BTreeMap<usize, validator::Signed<v2::ReplicaCommit>>>,
    /// Timeout votes seen by view -> signer -> signed messages (a signer may appear with several).
    pub timeouts: BTreeMap<u64, BTreeMap<usize, Vec<validator::Signed<v2::ReplicaTimeout>>>>,
    /// Proposals seen: view -> proposals.
    pub proposals: BTreeMap<u64, Vec<v2::LeaderProposal>>,
    /// Commit certificates known (seen or assembled), by view.
    pub commit_qcs: BTreeMap<u64, v2::CommitQC>,
    /// Everything ever seen or sent, for replays.
    pub history: Vec<validator::Signed<validator::ConsensusMsg>>,
    pub max_view: u64,
    payload_ctr: u64,
    /// Views in which each Byzantine validator already proposed (to bound spam).
    proposed: BTreeSet<(usize, u64, u8)>,
}

fn just_view(j: &v2::ProposalJustification) -> u64 {
    match j {
        v2::ProposalJustification::Commit(q) => q.view().number.0,
        v2::ProposalJustification::Timeout(q) => q.view.number.0,
    }
}

impl Adversary {
    pub fn new(c: Committee, rng: ChaCha8Rng) -> Self {
        let byz = (0..c.n()).filter(|i| c.byz[*i]).collect();
        Self {
            c,
            rng,
            byz,
            justs: BTreeMap::new(),
            commits: BTreeMap::new(),
            timeouts: BTreeMap::new(),
            proposals: BTreeMap::new(),
            commit_qcs: BTreeMap::new(),
            history: vec![],
            max_view: 0,
            payload_ctr: 0,
            proposed: BTreeSet::new(),
        }
    }

    fn learn_just(&mut self, j: &v2::ProposalJustification) {
        let v = just_view(j);
        if v == u64::MAX {
            return;
        }
        let e = self.justs.entry(v + 1).or_default();
        if !e.contains(j) && e.len() < 4 {
            e.push(j.clone());
        }
        match j {
            v2::ProposalJustification::Commit(q) => self.learn_qc(q),
            v2::ProposalJustification::Timeout(t) => {
                if let Some(q) = t.high_qc() {
                    let q = q.clone();
                    self.learn_qc(&q);
                }
            }
        }
        self.max_view = self.max_view.max(v + 1);
    }

    fn learn_qc(&mut self, q: &v2::CommitQC) {
        self.commit_qcs.entry(q.view().number.0).or_insert_with(|| q.clone());
    }

    /// Sniffs a message sent by a correct node (or by the adversary itself).
    pub fn observe(&mut self, m: &validator::Signed<validator::ConsensusMsg>) {
        if self.history.len() < 4000 {
            self.history.push(m.clone());
        }
        let Some(signer) = self.c.idx(&m.key) else { return };
        let validator::ConsensusMsg::V2(msg) = &m.msg;
        match msg {
            v2::ChonkyMsg::LeaderProposal(p) => {
                self.learn_just(&p.justification);
                let v = just_view(&p.justification).wrapping_add(1);
                let e = self.proposals.entry(v).or_default();
                if !e.contains(p) {
                    e.push(p.clone());
                }
            }
            v2::ChonkyMsg::ReplicaNewView(n) => self.learn_just(&n.justification),
            v2::ChonkyMsg::ReplicaCommit(c) => {
                self.max_view = self.max_view.max(c.view.number.0);
                self.commits
                    .entry(c.clone())
                    .or_default()
                    .insert(signer, m.clone().cast().unwrap());
            }
            v2::ChonkyMsg::ReplicaTimeout(t) => {
                self.max_view = self.max_view.max(t.view.number.0);
                if let Some(q) = &t.high_qc {
                    self.learn_qc(q);
                }
                let e = self
                    .timeouts
                    .entry(t.view.number.0)
                    .or_default()
                    .entry(signer)
                    .or_default();
                let s: validator::Signed<v2::ReplicaTimeout> = m.clone().cast().unwrap();
                if !e.contains(&s) && e.len() < 3 {
                    e.push(s);
                }
            }
        }
    }

    fn sign(&self, b: usize, m: v2::ChonkyMsg) -> validator::Signed<validator::ConsensusMsg> {
        self.c.keys[b].sign_msg(validator::ConsensusMsg::V2(m))
    }

    fn view(&self, number: u64) -> v2::View {
        v2::View {
            genesis: self.c.genesis.hash(),
            epoch: validator::EpochNumber(0),
            number: validator::ViewNumber(number),
        }
    }

    fn fresh_payload(&mut self, tag: u8) -> validator::Payload {
        self.payload_ctr += 1;
        let mut p = vec![0xB0u8, tag];
        p.extend_from_slice(&self.payload_ctr.to_le_bytes());
        validator::Payload(p)
    }

    /// Random subset of correct nodes (as a sorted list), possibly all, never empty.
    fn subset(&mut self) -> Vec<usize> {
        let mut all: Vec<usize> = self.c.correct().collect();
        all.shuffle(&mut self.rng);
        let k = self.rng.gen_range(1..=all.len());
        all.truncate(k);
        all.sort();
        all
    }

    fn all_correct(&self) -> Vec<usize> {
        self.c.correct().collect()
    }

    fn to_all(&mut self, msg: validator::Signed<validator::ConsensusMsg>, out: &mut Out) {
        self.observe(&msg);
        for to in self.all_correct() {
            out.push((to, msg.clone()));
        }
    }

    fn to_subset(&mut self, msg: validator::Signed<validator::ConsensusMsg>, out: &mut Out) {
        self.observe(&msg);
        for to in self.subset() {
            out.push((to, msg.clone()));
        }
    }

    /// Tries to assemble a commit certificate from the votes seen so far plus the votes of all
    /// Byzantine validators.
    fn assemble_commit_qc(&mut self, vote: &v2::ReplicaCommit) -> Option<v2::CommitQC> {
        let mut signed = self.commits.get(vote).cloned().unwrap_or_default();
        for &b in &self.byz.clone() {
            signed.entry(b).or_insert_with(|| self.c.keys[b].sign_msg(vote.clone()));
        }
        let mut qc = v2::CommitQC::new(vote.clone(), &self.c.schedule);
        for s in signed.values() {
            let _ = qc.add(s, self.c.genesis.hash(), validator::EpochNumber(0), &self.c.schedule);
        }
        if qc.signers.weight(&self.c.schedule) >= self.c.schedule.quorum_threshold() {
            Some(qc)
        } else {
            None
        }
    }

    /// Tries to assemble a timeout certificate for `view`, Byzantine validators contributing the
    /// votes in `byz_votes` (or truthful-looking empty ones).
    fn assemble_timeout_qc(
        &mut self,
        view: u64,
        lie: u32,
        prefer_hiding: bool,
    ) -> Option<v2::TimeoutQC> {
        let mut qc = v2::TimeoutQC::new(self.view(view));
        let seen = self.timeouts.get(&view).cloned().unwrap_or_default();
        // Order of correct signers: those whose high vote is oldest first if we want to hide the
        // newest vote.
        let mut correct: Vec<(usize, validator::Signed<v2::ReplicaTimeout>)> = seen
            .iter()
            .filter(|(i, _)| !self.c.byz[**i])
            .map(|(i, v)| (*i, v[self.rng.gen_range(0..v.len())].clone()))
            .collect();
        if prefer_hiding {
            correct.sort_by_key(|(_, s)| s.msg.high_vote.as_ref().map(|v| v.view.number.0));
        } else {
            correct.shuffle(&mut self.rng);
        }
        let quorum = self.c.schedule.quorum_threshold();
        for &b in &self.byz.clone() {
            let t = self.lying_timeout(view, lie.wrapping_add(b as u32));
            let s = self.c.keys[b].sign_msg(t);
            let _ = qc.add(&s, self.c.genesis.hash(), validator::EpochNumber(0), &self.c.schedule);
        }
        for (_, s) in correct {
            if qc.weight(&self.c.schedule) >= quorum {
                break;
            }
            let _ = qc.add(&s, self.c.genesis.hash(), validator::EpochNumber(0), &self.c.schedule);
        }
        if qc.weight(&self.c.schedule) >= quorum {
            Some(qc)
        } else {
            None
        }
    }

    /// A timeout vote for `view` whose high vote / high certificate are chosen by `lie`.
    fn lying_timeout(&mut self, view: u64, lie: u32) -> v2::ReplicaTimeout {
        // Certificates known to the adversary; mostly those older than the view being timed out,
        // sometimes every one it knows (a certificate nobody else has assembled yet, of the very
        // view timing out or later - nothing forbids a timeout vote to carry it).
        let horizon = if lie / 16 % 3 == 0 { u64::MAX } else { view };
        if horizon == u64::MAX {
            // Try to complete a certificate nobody has assembled yet from the newest votes seen
            // plus the Byzantine validators' own votes.
            let newest: Vec<v2::ReplicaCommit> = self.commits.keys().rev().take(3).cloned().collect();
            for vote in newest {
                if self.commit_qcs.contains_key(&vote.view.number.0) {
                    continue;
                }
                if let Some(qc) = self.assemble_commit_qc(&vote) {
                    self.learn_qc(&qc);
                    break;
                }
            }
        }
        let qcs: Vec<&v2::CommitQC> = self.commit_qcs.values().filter(|q| q.view().number.0 < horizon).collect();
        let newest_qc = qcs.last().map(|q| (*q).clone());
        let votes: Vec<&v2::ReplicaCommit> =
            self.commits.keys().filter(|c| c.view.number.0 <= view).collect();
        let (high_vote, high_qc) = match lie % 8 {
            // nothing at all
            0 => (None, None),
            // truthful-looking: newest vote and newest certificate
            1 => (votes.last().map(|v| (*v).clone()), newest_qc),
            // newest certificate but an old / random vote
            2 => (
                if votes.is_empty() { None } else { Some(votes[lie as usize / 7 % votes.len()].clone()) },
                newest_qc,
            ),
            // oldest certificate, no vote
            3 => (None, qcs.first().map(|q| (*q).clone())),
            // a vote for a block nobody proposed
            4 => (
                Some(v2::ReplicaCommit {
                    view: self.view(view.saturating_sub(lie as u64 % 3)),
                    proposal: v2::BlockHeader {
                        number: validator::BlockNumber(
                            newest_qc.as_ref().map(|q| q.header().number.0 + 1).unwrap_or(self.c.genesis.first_block.0),
                        ),
                        payload: validator::Payload(vec![0xEE, lie as u8]).hash(),
                    },
                }),
                newest_qc,
            ),
            // a corrupted copy of a genuine (old or new) certificate: signer bitmap cleared,
            // one signer dropped / added, or the signature replaced - with or without a vote
            6 | 7 if !qcs.is_empty() => {
                let mut q = qcs[lie as usize / 8 % qcs.len()].clone();
                match lie / 64 % 4 {
                    0 => q.signers = v2::Signers(BitVec::from_elem(q.signers.0.len(), false)),
                    1 => {
                        let i = lie as usize / 256 % q.signers.0.len().max(1);
                        let cur = q.signers.0.get(i).unwrap_or(false);
                        if i < q.signers.0.len() {
                            q.signers.0.set(i, !cur);
                        }
                    }
                    2 => {
                        let sig = self.c.keys[self.byz[0]].sign_msg(q.message.clone()).sig;
                        q.signature = validator::AggregateSignature::aggregate([&sig]);
                    }
                    _ => q.signers = v2::Signers(BitVec::from_elem(q.signers.0.len() + 1, true)),
                }
                (if lie % 8 == 6 { None } else { votes.last().map(|v| (*v).clone()) }, Some(q))
            }
            // newest vote, no certificate
            _ => (votes.last().map(|v| (*v).clone()), None),
        };
        v2::ReplicaTimeout {
            view: self.view(view),
            high_vote,
            high_qc,
        }
    }

    fn leader_idx(&self, view: u64) -> Option<usize> {
        // `view_leader` has known defects (F1/F2) which must not take the harness down.
        let s = &self.c.schedule;
        let v = validator::ViewNumber(view);
        std::panic::catch_unwind(std::panic::AssertUnwindSafe(|| s.view_leader(v)))
            .ok()
            .and_then(|k| self.c.idx(&k))
    }

    /// Performs one adversarial action; returns the messages to deliver (to correct nodes).
    pub fn act(&mut self, kind: u32, a: u32, b: u32, c: u32, hub: &Hub) -> Out {
        let mut out = vec![];
        if self.byz.is_empty() {
            return out;
        }
        let who = self.byz[a as usize % self.byz.len()];
        match kind % 20 {
            // Proposal by a Byzantine leader: honest-looking, equivocating, or rule-breaking.
            0..=3 => {
                // Views for which a Byzantine validator is leader and a justification is known.
                let views: Vec<u64> = self
                    .justs
                    .keys()
                    .rev()
                    .take(4)
                    .copied()
                    .filter(|v| self.leader_idx(*v).is_some_and(|l| self.c.byz[l]))
                    .collect();
                if views.is_empty() {
                    return out;
                }
                let v = views[b as usize % views.len()];
                let leader = self.leader_idx(v).unwrap();
                let variant = (c % 8) as u8;
                if !self.proposed.insert((leader, v, variant)) {
                    return out;
                }
                let js = self.justs.get(&v).unwrap().clone();
                let j = js[c as usize / 8 % js.len()].clone();
                let (_, implied_hash) =
                    j.get_implied_block(&self.c.schedule, self.c.genesis.first_block);
                let mk = |payload: Option<validator::Payload>| v2::LeaderProposal {
                    proposal_payload: payload,
                    justification: j.clone(),
                };
                match variant {
                    // equivocation: two different blocks to two halves
                    0 | 1 | 2 if implied_hash.is_none() => {
                        hub.fault("byz_equivocating_proposal");
                        let p1 = self.fresh_payload(1);
                        let p2 = self.fresh_payload(2);
                        let m1 = self.sign(leader, v2::ChonkyMsg::LeaderProposal(mk(Some(p1))));
                        let m2 = self.sign(leader, v2::ChonkyMsg::LeaderProposal(mk(Some(p2))));
                        self.observe(&m1);
                        self.observe(&m2);
                        let s1 = self.subset();
                        for to in self.all_correct() {
                            out.push((to, if s1.contains(&to) { m1.clone() } else { m2.clone() }));
                        }
                    }
                    // reproposal with a payload / fresh proposal without one
                    3 => {
                        hub.fault("byz_rule_breaking_proposal");
                        let p = if implied_hash.is_some() { Some(self.fresh_payload(3)) } else { None };
                        let m = self.sign(leader, v2::ChonkyMsg::LeaderProposal(mk(p)));
                        self.to_all(m, &mut out);
                    }
                    // payload the execution layer rejects
                    4 if implied_hash.is_none() => {
                        hub.fault("byz_invalid_payload");
                        let m = self.sign(
                            leader,
                            v2::ChonkyMsg::LeaderProposal(mk(Some(validator::Payload(vec![0xBD, c as u8])))),
                        );
                        self.to_all(m, &mut out);
                    }
                    // honest-looking proposal (to all or to a subset)
                    _ => {
                        hub.fault("byz_proposal");
                        let p = if implied_hash.is_some() { None } else { Some(self.fresh_payload(0)) };
                        let m = self.sign(leader, v2::ChonkyMsg::LeaderProposal(mk(p)));
                        if variant == 7 {
                            self.to_subset(m, &mut out);
                        } else {
                            self.to_all(m, &mut out);
                        }
                    }
                }
            }
            // Vote for every proposal of a recent view (both sides of an equivocation).
            4..=6 => {
                let views: Vec<u64> = self.proposals.keys().rev().take(3).copied().collect();
                if views.is_empty() {
                    return out;
                }
                let v = views[b as usize % views.len()];
                let props = self.proposals.get(&v).unwrap().clone();
                for p in props {
                    let (number, hash) =
                        p.justification.get_implied_block(&self.c.schedule, self.c.genesis.first_block);
                    let Some(hash) = hash.or(p.proposal_payload.as_ref().map(|x| x.hash())) else {
                        continue;
                    };
                    let vote = v2::ReplicaCommit {
                        view: self.view(v),
                        proposal: v2::BlockHeader { number, payload: hash },
                    };
                    hub.fault("byz_commit_vote");
                    let m = self.sign(who, v2::ChonkyMsg::ReplicaCommit(vote));
                    if c % 3 == 0 {
                        self.to_subset(m, &mut out);
                    } else {
                        self.to_all(m, &mut out);
                    }
                }
            }
            // Timeout vote lying about high vote / certificate.
            7 | 8 => {
                let v = self.max_view.saturating_sub(b as u64 % 3);
                let t = self.lying_timeout(v, c);
                hub.fault("byz_lying_timeout");
                let m = self.sign(who, v2::ChonkyMsg::ReplicaTimeout(t));
                if c % 4 == 0 {
                    self.to_subset(m, &mut out);
                } else {
                    self.to_all(m, &mut out);
                }
            }
            // Assemble a commit certificate (own votes + sniffed ones) and show it to a subset.
            9 | 10 => {
                let votes: Vec<v2::ReplicaCommit> = self.commits.keys().rev().take(4).cloned().collect();
                if votes.is_empty() {
                    return out;
                }
                let vote = votes[b as usize % votes.len()].clone();
                if let Some(qc) = self.assemble_commit_qc(&vote) {
                    hub.fault("byz_assembled_commit_qc");
                    self.learn_qc(&qc);
                    let m = self.sign(
                        who,
                        v2::ChonkyMsg::ReplicaNewView(v2::ReplicaNewView {
                            justification: v2::ProposalJustification::Commit(qc),
                        }),
                    );
                    self.to_subset(m, &mut out);
                }
            }
            // Assemble a timeout certificate which hides the newest votes where possible.
            11 | 12 => {
                let v = self.max_view.saturating_sub(b as u64 % 3);
                // The leader's new-view is processed even by replicas which are already in that
                // view: let a Byzantine leader of view v+1 speak when there is one.
                let who = match self.leader_idx(v.saturating_add(1)) {
                    Some(l) if self.c.byz[l] && c % 3 != 0 => l,
                    _ => who,
                };
                if let Some(qc) = self.assemble_timeout_qc(v, c, c % 2 == 0) {
                    hub.fault("byz_assembled_timeout_qc");
                    let hv = qc.high_vote(&self.c.schedule);
                    if hv.is_none() {
                        hub.probe("timeout_qc_without_high_vote");
                    }
                    if qc.map.len() >= 3 {
                        hub.probe("timeout_qc_three_or_more_distinct_votes");
                    }
                    let m = self.sign(
                        who,
                        v2::ChonkyMsg::ReplicaNewView(v2::ReplicaNewView {
                            justification: v2::ProposalJustification::Timeout(qc),
                        }),
                    );
                    self.to_subset(m, &mut out);
                }
            }
            // Replay an old message (from anyone) to a random node.
            13 | 14 => {
                if self.history.is_empty() {
                    return out;
                }
                let m = self.history[b as usize % self.history.len()].clone();
                let all = self.all_correct();
                hub.fault("byz_replay");
                out.push((all[c as usize % all.len()], m));
            }
            // Well-signed messages with absurd field values (C10).
            16..=19 => {
                hub.fault("byz_absurd_values");
                let extremes = [0u64, 1, 2, u64::MAX - 1, u64::MAX, u64::MAX / 2, self.max_view + 1_000_000];
                let v = extremes[b as usize % extremes.len()];
                let n = extremes[(b as usize / 7) % extremes.len()];
                let vote = v2::ReplicaCommit {
                    view: self.view(v),
                    proposal: v2::BlockHeader {
                        number: validator::BlockNumber(n),
                        payload: validator::Payload(vec![]).hash(),
                    },
                };
                // A certificate-shaped object with extreme numbers; its signature is the adversary's
                // own (valid) signature, its signer set whatever fits.
                let fake_qc = |this: &Self, signers: usize| {
                    let sig = this.c.keys[who].sign_msg(vote.clone()).sig;
                    v2::CommitQC {
                        message: vote.clone(),
                        signers: v2::Signers(BitVec::from_elem(signers, true)),
                        signature: validator::AggregateSignature::aggregate([&sig]),
                    }
                };
                let n_val = self.c.n();
                let msg = match c % 7 {
                    0 => v2::ChonkyMsg::ReplicaCommit(vote.clone()),
                    1 => v2::ChonkyMsg::ReplicaTimeout(v2::ReplicaTimeout {
                        view: self.view(v),
                        high_vote: Some(vote.clone()),
                        high_qc: Some(fake_qc(self, n_val)),
                    }),
                    2 => v2::ChonkyMsg::ReplicaNewView(v2::ReplicaNewView {
                        justification: v2::ProposalJustification::Commit(fake_qc(self, n_val)),
                    }),
                    3 => v2::ChonkyMsg::LeaderProposal(v2::LeaderProposal {
                        proposal_payload: Some(validator::Payload(vec![0u8; (c as usize / 7) % 3000])),
                        justification: v2::ProposalJustification::Commit(fake_qc(self, n_val)),
                    }),
                    // wrong bitmap lengths: empty and oversized
                    4 => v2::ChonkyMsg::ReplicaNewView(v2::ReplicaNewView {
                        justification: v2::ProposalJustification::Commit(fake_qc(self, 0)),
                    }),
                    5 => v2::ChonkyMsg::ReplicaNewView(v2::ReplicaNewView {
                        justification: v2::ProposalJustification::Commit(fake_qc(self, n_val + 9)),
                    }),
                    // empty timeout certificate with an extreme view
                    _ => v2::ChonkyMsg::ReplicaNewView(v2::ReplicaNewView {
                        justification: v2::ProposalJustification::Timeout(v2::TimeoutQC::new(self.view(v))),
                    }),
                };
                let m = self.c.keys[who].sign_msg(validator::ConsensusMsg::V2(msg));
                // Not `observe`d: the adversary's own bookkeeping must not ingest its garbage.
                for to in self.subset() {
                    out.push((to, m.clone()));
                }
            }
            // Votes for far-future views (cache flood).
            _ => {
                hub.fault("byz_future_flood");
                for k in 0..(1 + c % 6) as u64 {
                    let v = self.max_view + 1 + (b as u64 % 1000) * 7 + k;
                    let m = if c % 2 == 0 {
                        let vote = v2::ReplicaCommit {
                            view: self.view(v),
                            proposal: v2::BlockHeader {
                                number: validator::BlockNumber(self.c.genesis.first_block.0 + k),
                                payload: validator::Payload(vec![0xF1, k as u8]).hash(),
                            },
                        };
                        self.c.keys[who].sign_msg(validator::ConsensusMsg::V2(v2::ChonkyMsg::ReplicaCommit(vote)))
                    } else {
                        let t = v2::ReplicaTimeout { view: self.view(v), high_vote: None, high_qc: None };
                        self.c.keys[who].sign_msg(validator::ConsensusMsg::V2(v2::ChonkyMsg::ReplicaTimeout(t)))
                    };
                    // Not recorded in max_view: floods must not drag the adversary's own clock.
                    for to in self.all_correct() {
                        out.push((to, m.clone()));
                    }
                }
            }
        }
        out
    }
}
