//! C05 oracle 4: a reference replica, run in lock-step with every correct replica.
//!
//! Written from `spec/informal-spec/{replica,types}.rs` and Appendix A of DESIGN.md - not from the
//! implementation's control flow - it is a small executable model of *what a replica does with
//! one input*: which guard rejects it, or how (view, phase, high vote, high certificates, vote
//! caches) change and which messages go out.  After every input the real replica handled (hook H3
//! delivers the input, the rejection class and a snapshot of the state, and the harness the
//! messages sent meanwhile) the model makes the same step and the two are compared.
//!
//! What the model does *not* decide, on purpose:
//!  * validity of signatures and certificates (`InvalidSignature`, `InvalidMessage`): pure functions
//!    of the message (C04, not applicable to this technique); the verdict of the implementation is
//!    taken over, genuineness of certificates against the signing history is C02 / C05 oracle 2;
//!  * verdicts which depend on the environment (`ProposalAlreadyPruned`, `MissingPreviousPayload`,
//!    `InvalidPayload`): taken over if every guard the specification puts before them passes;
//!  * leader election and the block implied by a justification: taken from `roles` (C11 / C02's
//!    pure half);
//!  * proposals sent by the proposer task (asynchronous; their content is C05 oracle 3).
use std::collections::{BTreeMap, BTreeSet};

use zksync_consensus_bft::verif::{Event, Snapshot};
use zksync_consensus_roles::validator::{self, v2};

use super::hub::Committee;

#[derive(Debug, Clone, PartialEq, Eq)]
pub enum Sent {
    NewView { just_kind: &'static str, just_view: u64 },
    Commit(v2::ReplicaCommit),
    Timeout { view: u64, high_vote: Option<v2::ReplicaCommit>, high_qc_view: Option<u64> },
}

#[derive(Debug, Clone, PartialEq, Eq)]
pub struct Persisted {
    pub view: u64,
    pub phase: v2::Phase,
    pub high_vote: Option<v2::ReplicaCommit>,
    /// (view, header) of the highest commit certificate.
    pub hc: Option<(u64, v2::BlockHeader)>,
    /// View of the highest timeout certificate.
    pub ht: Option<u64>,
}

#[derive(Debug, Clone, PartialEq, Eq)]
pub struct CacheSizes {
    pub commit_views: usize,
    pub commit_qc_views: usize,
    pub commit_qcs: usize,
    pub timeout_views: usize,
    pub timeout_qcs: usize,
}

pub struct RefReplica {
    schedule: validator::Schedule,
    weights: BTreeMap<validator::PublicKey, u64>,
    first_block: validator::BlockNumber,
    max_payload: usize,
    pub st: Persisted,
    /// Latest commit / timeout vote view per validator.
    cv: BTreeMap<validator::PublicKey, u64>,
    tv: BTreeMap<validator::PublicKey, u64>,
    /// Votes collected per view.
    cq: BTreeMap<u64, BTreeMap<v2::ReplicaCommit, BTreeSet<validator::PublicKey>>>,
    tq: BTreeMap<u64, BTreeMap<validator::PublicKey, v2::ReplicaTimeout>>,
    /// The caches can be compared (they cannot be re-synchronised from a snapshot).
    pub caches_known: bool,
}

fn persisted_of(s: &Snapshot) -> Persisted {
    Persisted {
        view: s.view.0,
        phase: s.phase,
        high_vote: s.high_vote.clone(),
        hc: s.high_commit_qc.as_ref().map(|q| (q.view().number.0, *q.header())),
        ht: s.high_timeout_qc.as_ref().map(|q| q.view.number.0),
    }
}

fn caches_of(s: &Snapshot) -> CacheSizes {
    CacheSizes {
        commit_views: s.commit_views,
        commit_qc_views: s.commit_qc_views,
        commit_qcs: s.commit_qcs,
        timeout_views: s.timeout_views,
        timeout_qcs: s.timeout_qcs,
    }
}

/// What the harness saw the replica send, reduced to what the model predicts.
pub fn sent_of(m: &validator::Signed<validator::ConsensusMsg>) -> Option<Sent> {
    let validator::ConsensusMsg::V2(m) = &m.msg else { return None };
    Some(match m {
        v2::ChonkyMsg::LeaderProposal(_) => return None,
        v2::ChonkyMsg::ReplicaCommit(c) => Sent::Commit(c.clone()),
        v2::ChonkyMsg::ReplicaNewView(n) => {
            let (k, v) = just_id(&n.justification);
            Sent::NewView { just_kind: k, just_view: v }
        }
        v2::ChonkyMsg::ReplicaTimeout(t) => Sent::Timeout {
            view: t.view.number.0,
            high_vote: t.high_vote.clone(),
            high_qc_view: t.high_qc.as_ref().map(|q| q.view().number.0),
        },
    })
}

fn just_id(j: &v2::ProposalJustification) -> (&'static str, u64) {
    match j {
        v2::ProposalJustification::Commit(q) => ("commit", q.view().number.0),
        v2::ProposalJustification::Timeout(q) => ("timeout", q.view.number.0),
    }
}

/// Outcome of one model step.
struct Step {
    /// `None`: accepted; `Some(class)`: rejected by that guard.
    verdict: Option<&'static str>,
    sent: Vec<Sent>,
}

const ENV_PROPOSAL_CLASSES: [&str; 3] = ["ProposalAlreadyPruned", "MissingPreviousPayload", "InvalidPayload"];
const VALIDITY_CLASSES: [&str; 2] = ["InvalidSignature", "InvalidMessage"];

impl RefReplica {
    pub fn start(c: &Committee, max_payload: usize, s: &Snapshot) -> Self {
        Self {
            schedule: c.schedule.clone(),
            weights: c.pubkeys.iter().cloned().zip(c.weights.iter().copied()).collect(),
            first_block: c.genesis.first_block,
            max_payload,
            st: persisted_of(s),
            cv: BTreeMap::new(),
            tv: BTreeMap::new(),
            cq: BTreeMap::new(),
            tq: BTreeMap::new(),
            caches_known: true,
        }
    }

    fn weight<'a>(&self, keys: impl Iterator<Item = &'a validator::PublicKey>) -> u64 {
        keys.map(|k| self.weights.get(k).copied().unwrap_or(0)).sum()
    }

    fn caches(&self) -> CacheSizes {
        CacheSizes {
            commit_views: self.cv.len(),
            commit_qc_views: self.cq.len(),
            commit_qcs: self.cq.values().map(|m| m.len()).sum(),
            timeout_views: self.tv.len(),
            timeout_qcs: self.tq.len(),
        }
    }

    fn justification(&self) -> (&'static str, u64) {
        // The highest certificate; the commit certificate on a tie.
        match (self.st.hc.as_ref().map(|x| x.0), self.st.ht) {
            (Some(c), Some(t)) if t > c => ("timeout", t),
            (Some(c), _) => ("commit", c),
            (None, Some(t)) => ("timeout", t),
            (None, None) => ("none", 0),
        }
    }

    fn adopt_commit(&mut self, view: u64, header: v2::BlockHeader) {
        if self.st.hc.as_ref().is_none_or(|(v, _)| *v < view) {
            self.st.hc = Some((view, header));
        }
    }

    fn adopt_timeout(&mut self, view: u64, high_qc: Option<(u64, v2::BlockHeader)>) {
        if let Some((v, h)) = high_qc {
            self.adopt_commit(v, h);
        }
        if self.st.ht.is_none_or(|t| t < view) {
            self.st.ht = Some(view);
        }
    }

    fn adopt(&mut self, j: &v2::ProposalJustification) {
        match j {
            v2::ProposalJustification::Commit(q) => self.adopt_commit(q.view().number.0, *q.header()),
            v2::ProposalJustification::Timeout(q) => {
                let hq = q.map.keys().filter_map(|m| m.high_qc.as_ref()).map(|c| (c.view().number.0, *c.header())).max_by_key(|x| x.0);
                self.adopt_timeout(q.view.number.0, hq);
            }
        }
    }

    fn new_view(&mut self, view: u64, sent: &mut Vec<Sent>) {
        self.st.view = view;
        self.st.phase = v2::Phase::Prepare;
        let (k, v) = self.justification();
        sent.push(Sent::NewView { just_kind: k, just_view: v });
    }

    fn on_timer(&mut self) -> Step {
        let mut sent = vec![];
        self.st.phase = v2::Phase::Timeout;
        if self.st.view != 0 {
            let (k, v) = self.justification();
            sent.push(Sent::NewView { just_kind: k, just_view: v });
        }
        sent.push(Sent::Timeout { view: self.st.view, high_vote: self.st.high_vote.clone(), high_qc_view: self.st.hc.as_ref().map(|x| x.0) });
        Step { verdict: None, sent }
    }

    /// `real`: the implementation's verdict, consulted only for the classes listed in the
    /// module documentation.
    fn on_message(&mut self, m: &validator::Signed<validator::ConsensusMsg>, real: Option<&str>) -> Step {
        let author = &m.key;
        let reject = |c: &'static str| Step { verdict: Some(c), sent: vec![] };
        let taken_over = |classes: &[&'static str]| classes.iter().copied().find(|c| real == Some(*c));
        let validator::ConsensusMsg::V2(msg) = &m.msg else { return Step { verdict: None, sent: vec![] } };
        let quorum = self.schedule.quorum_threshold();
        match msg {
            v2::ChonkyMsg::ReplicaCommit(c) => {
                let v = c.view.number.0;
                if !self.weights.contains_key(author) {
                    return reject("NonValidatorSigner");
                }
                if v < self.st.view {
                    return reject("Old");
                }
                if self.cv.get(author).is_some_and(|x| *x >= v) {
                    return reject("DuplicateSigner");
                }
                if let Some(c) = taken_over(&VALIDITY_CLASSES) {
                    return reject(c);
                }
                let signers = self.cq.entry(v).or_default().entry(c.clone()).or_default();
                signers.insert(author.clone());
                let signers = signers.clone();
                self.cv.insert(author.clone(), v);
                let active: BTreeSet<u64> = self.cv.values().copied().collect();
                self.cq.retain(|view, _| active.contains(view));
                let mut sent = vec![];
                if self.weight(signers.iter()) >= quorum {
                    self.cq.remove(&v);
                    self.adopt_commit(v, c.proposal);
                    self.new_view(v.saturating_add(1), &mut sent);
                }
                Step { verdict: None, sent }
            }
            v2::ChonkyMsg::ReplicaTimeout(t) => {
                let v = t.view.number.0;
                if !self.weights.contains_key(author) {
                    return reject("NonValidatorSigner");
                }
                if v < self.st.view {
                    return reject("Old");
                }
                if self.tv.get(author).is_some_and(|x| *x >= v) {
                    return reject("DuplicateSigner");
                }
                if let Some(c) = taken_over(&VALIDITY_CLASSES) {
                    return reject(c);
                }
                let votes = self.tq.entry(v).or_default();
                votes.insert(author.clone(), t.clone());
                let votes = votes.clone();
                self.tv.insert(author.clone(), v);
                let active: BTreeSet<u64> = self.tv.values().copied().collect();
                self.tq.retain(|view, _| active.contains(view));
                let mut sent = vec![];
                if self.weight(votes.keys()) >= quorum {
                    self.tq.remove(&v);
                    let hq = votes.values().filter_map(|m| m.high_qc.as_ref()).map(|c| (c.view().number.0, *c.header())).max_by_key(|x| x.0);
                    self.adopt_timeout(v, hq);
                    self.new_view(v.saturating_add(1), &mut sent);
                }
                Step { verdict: None, sent }
            }
            v2::ChonkyMsg::ReplicaNewView(n) => {
                let v = just_id(&n.justification).1.saturating_add(1);
                if v < self.st.view || (v == self.st.view && author != &self.schedule.view_leader(validator::ViewNumber(self.st.view))) {
                    return reject("Old");
                }
                if !self.weights.contains_key(author) {
                    return reject("NonValidatorSigner");
                }
                if let Some(c) = taken_over(&VALIDITY_CLASSES) {
                    return reject(c);
                }
                self.adopt(&n.justification);
                let mut sent = vec![];
                if v > self.st.view {
                    self.new_view(v, &mut sent);
                }
                Step { verdict: None, sent }
            }
            v2::ChonkyMsg::LeaderProposal(p) => {
                let v = just_id(&p.justification).1.saturating_add(1);
                if v < self.st.view || (v == self.st.view && self.st.phase != v2::Phase::Prepare) {
                    return reject("Old");
                }
                if author != &self.schedule.view_leader(validator::ViewNumber(v)) {
                    return reject("InvalidLeader");
                }
                if let Some(c) = taken_over(&VALIDITY_CLASSES) {
                    return reject(c);
                }
                let (number, hash) = p.justification.get_implied_block(&self.schedule, self.first_block);
                if real == Some("ProposalAlreadyPruned") {
                    return reject("ProposalAlreadyPruned");
                }
                let hash = match hash {
                    Some(h) => {
                        if p.proposal_payload.is_some() {
                            return reject("ReproposalWithPayload");
                        }
                        h
                    }
                    None => {
                        let Some(payload) = &p.proposal_payload else { return reject("MissingPayload") };
                        if payload.len() > self.max_payload {
                            return reject("ProposalOversizedPayload");
                        }
                        if let Some(c) = taken_over(&ENV_PROPOSAL_CLASSES[1..]) {
                            return reject(c);
                        }
                        payload.hash()
                    }
                };
                let vote = v2::ReplicaCommit { view: p.view(), proposal: v2::BlockHeader { number, payload: hash } };
                self.st.view = v;
                self.st.phase = v2::Phase::Commit;
                self.st.high_vote = Some(vote.clone());
                self.adopt(&p.justification);
                Step { verdict: None, sent: vec![Sent::Commit(vote)] }
            }
        }
    }

    /// Makes the step the real replica has just made (`s`: its snapshot afterwards, `sent`: what it
    /// sent meanwhile, proposals excluded) and returns the differences, if any.
    pub fn step(&mut self, s: &Snapshot, sent: &[Sent]) -> Vec<String> {
        let before = self.st.clone();
        let (what, step, real_err) = match &s.event {
            Event::Start => return vec![],
            Event::Timeout => ("view timer".to_string(), self.on_timer(), None),
            Event::Handled { label, view, error, msg } => {
                let step = self.on_message(msg, error.as_deref());
                (format!("{label} (view {view}) from {:?}", msg.key), step, error.clone())
            }
        };
        let mut diffs = vec![];
        if step.verdict.map(|s| s.to_string()) != real_err {
            self.caches_known = false;
            diffs.push(format!(
                "verdict: the replica {}, the reference replica {}",
                real_err.as_ref().map(|e| format!("rejected it as {e}")).unwrap_or("accepted it".into()),
                step.verdict.map(|e| format!("rejects it as {e}")).unwrap_or("accepts it".into()),
            ));
        }
        let real = persisted_of(s);
        if real != self.st {
            diffs.push(format!("state afterwards: replica {real:?}, reference {:?}", self.st));
        }
        if sent != step.sent.as_slice() {
            diffs.push(format!("messages sent: replica {sent:?}, reference {:?}", step.sent));
        }
        if self.caches_known && caches_of(s) != self.caches() {
            diffs.push(format!("vote caches: replica {:?}, reference {:?}", caches_of(s), self.caches()));
            self.caches_known = false;
        }
        if !diffs.is_empty() {
            diffs.insert(0, format!("input: {what}; state before: {before:?}"));
            // Continue from the replica's state: one deviation, one report.
            self.st = real;
        }
        diffs
    }
}

