//! E1: a cluster of real `bft::Config::run` replicas over `SimEngine`s and a simulated bus,
//! driven by a director which executes a seed-generated plan of external actions.
use std::{
    collections::BTreeMap,
    rc::Rc,
    sync::{Arc, Mutex},
};

use rand::{seq::SliceRandom, Rng};
use serde::{Deserialize, Serialize};
use zksync_concurrency::{
    ctx::{self, channel},
    oneshot, scope, sync, time,
    verif::tokio_shim as gtokio,
};
use zksync_consensus_bft as bft;
use zksync_consensus_engine::EngineManager;
use zksync_consensus_network::io::{ConsensusInputMessage, ConsensusReq};
use zksync_consensus_roles::validator::{self, v2};

use super::{
    adversary::Adversary,
    engine::{NodeStore, SimEngine, WriteFault},
    hub::{describe, Committee, Hub},
};
use crate::kit::{self, Policy, Sched};

/// Configuration of one run (generated from the seed, or read from a replay file).
#[derive(Debug, Clone, Serialize, Deserialize, PartialEq)]
pub struct Cfg {
    pub seed: u64,
    pub weights: Vec<u64>,
    pub leaders: Vec<bool>,
    pub byz: Vec<bool>,
    pub weighted: bool,
    pub frequency: u64,
    pub first_block: u64,
    pub max_payload: usize,
    pub max_pad: usize,
    pub view_timeout_ms: i64,
    pub policy: Policy,
    pub persist_now: bool,
    /// Fault classes enabled in this run (swarm testing).
    pub faults: FaultMix,
    pub n_actions: usize,
    /// Twins: number of instances of the *real replica code* run under the key of the first
    /// Byzantine validator (0 = none).  Each instance has its own disk and its own audience.
    #[serde(default)]
    pub twins: u32,
    /// Crash enumeration: (node, k, applied) - node dies inside its k-th durable write (1-based,
    /// counted from the start of the run); `applied` = the write reached the disk.
    #[serde(default)]
    pub arm: Option<(u32, u64, bool)>,
}

#[derive(Debug, Clone, Serialize, Deserialize, PartialEq, Default)]
pub struct FaultMix {
    pub drop: u32,
    pub dup: u32,
    pub reorder: u32,
    pub partition: u32,
    pub crash: u32,
    pub crash_in_write: u32,
    pub disk_error: u32,
    pub clock: u32,
    pub byz: u32,
    pub sync: u32,
    pub short_steps: u32,
}

impl FaultMix {
    pub fn none() -> Self {
        Self::default()
    }
    pub fn any(&self) -> bool {
        self.drop + self.dup + self.reorder + self.partition + self.crash + self.crash_in_write
            + self.disk_error + self.byz
            > 0
    }
}

/// One external action of the director.
#[derive(Debug, Clone, Serialize, Deserialize, PartialEq)]
pub enum Action {
    /// Let tasks run: at most `steps` steps (0 = until quiescent).
    Run { steps: u32 },
    /// Deliver the in-flight message number `k mod len` (among deliverable ones).
    Deliver { k: u32 },
    /// Deliver the oldest `n` deliverable messages addressed to node `to`.
    DeliverTo { to: u32, n: u32 },
    Drop { k: u32 },
    Dup { k: u32 },
    /// Advance the clock of one node (or all if `node` >= n) by `ms`.
    Tick { node: u32, ms: u32 },
    Crash { node: u32 },
    /// Arm a crash (or an I/O error) inside the `k`-th next durable write of `node`.
    ArmWriteFault { node: u32, k: u32, applied: bool, error: bool },
    Restart { node: u32 },
    /// Cut the network in two groups (bit i of `mask` = group of node i).
    Cut { mask: u32 },
    Heal,
    /// Complete one pending block write of `node`.
    Persist { node: u32 },
    FailSetState { node: u32, n: u32 },
    RejectPayloads { node: u32, n: u32 },
    /// Block sync: give node `to` the ledger block number `queued.next + off` (off in 0..3).
    Sync { to: u32, off: u32 },
    Byz { kind: u32, a: u32, b: u32, c: u32 },
    /// Graceful stop (context cancellation) of a node.
    Stop { node: u32 },
    /// Enter the fair suffix (heal everything, restart everyone, stop injecting faults).
    Suffix,
    /// "Hidden commit": from now on commit votes reach only correct node `to`; every other copy is
    /// lost.  As soon as `to` holds a newer commit certificate (it may have finalized a block
    /// nobody else knows to be final) it is cut off from the rest, its messages in flight are
    /// lost, and commit votes flow normally again.  `Heal` ends the episode in any case.
    /// With `byz_next` the episode only starts if the leader of the view after `to`'s current one
    /// is Byzantine (it will speak to replicas which have just timed out on a hidden commit).
    HideCommit { to: u32, #[serde(default)] byz_next: bool },
    /// Twins: redistribute the correct nodes among the twin instances.  Two bits per correct node:
    /// values below the number of twins = that instance only, the value above = every instance.
    Retwin { mask: u64 },
    /// The network delivers an old message once more (duplication with an arbitrary delay): message
    /// `k mod len` of everything ever sent, to node `to`.
    Replay { k: u32, to: u32 },
}

pub fn tag_of(node: usize, inc: u64) -> u64 {
    (node as u64 + 1) * 100_000 + inc
}

pub struct Incarnation {
    pub inc: u64,
    /// Stopped by context cancellation (operator stop, end of epoch) rather than killed.
    pub graceful: bool,
    pub inbound: sync::prunable_mpsc::Sender<ConsensusReq>,
    pub kill: Option<oneshot::Sender<()>>,
    pub done: tokio::task::JoinHandle<anyhow::Result<()>>,
    pub mgr: Arc<Mutex<Option<Arc<EngineManager>>>>,
}

pub struct Node {
    pub idx: usize,
    pub clock: ctx::ManualClock,
    pub store: Arc<Mutex<NodeStore>>,
    pub live: Option<Incarnation>,
    /// Incarnations which have been killed and are winding down.
    pub dying: Vec<Incarnation>,
    pub restarts: u64,
    /// View / timer deadline of the live incarnation, from its last snapshot.
    pub view: Option<u64>,
    pub deadline: time::Deadline,
    /// Last snapshot of the live incarnation.
    pub snap: Option<bft::verif::Snapshot>,
}

/// One instance of the real replica code running under a Byzantine validator's key ("twin").
/// Nothing it does is subject to the oracles for correct nodes; what it sends is Byzantine traffic.
pub struct Twin {
    pub idx: usize,
    pub clock: ctx::ManualClock,
    pub store: Arc<Mutex<NodeStore>>,
    pub live: Option<Incarnation>,
    pub out: Option<channel::UnboundedReceiver<ConsensusInputMessage>>,
    /// Correct nodes this instance talks to and hears from.
    pub audience: Vec<bool>,
}

#[derive(Clone)]
pub struct InFlight {
    pub id: u64,
    pub from: usize,
    pub to: usize,
    pub msg: validator::Signed<validator::ConsensusMsg>,
}

pub struct Cluster {
    pub cfg: Cfg,
    pub hub: Arc<Hub>,
    pub sched: Rc<Sched>,
    pub nodes: Vec<Node>,
    /// Twin instances; addressed on the bus as `n + k`.
    pub twins: Vec<Twin>,
    pub inflight: Vec<InFlight>,
    pub next_msg_id: u64,
    /// Partition group per node; messages between different groups are held.
    pub group: Vec<u8>,
    /// Active hidden-commit episode: (the only receiver of commit votes, its commit certificate view at the start).
    pub hide: Option<(usize, Option<u64>)>,
    pub adversary: Adversary,
    pub dctx: ctx::Ctx,
    pub sim_ms: u64,
    pub delivered: u64,
    pub in_suffix: bool,
    pub sync_tasks: Vec<tokio::task::JoinHandle<()>>,
    /// Decides which synced blocks a faulty peer tampers with (own stream: plans are unaffected).
    pub sync_rng: crate::kit::SimRng,
    pub panics_seen: usize,
    /// Shutting down: keep stepping even though a violation was recorded.
    pub draining: bool,
    /// Observations in the order in which they happened: messages sent by a node's live
    /// incarnation and replica snapshots (the observer drains the node's outbound channel before
    /// recording a snapshot, so a message always precedes the snapshot of the state it was sent in).
    pub obs: Rc<std::cell::RefCell<Vec<Obs>>>,
    /// Per node: what its live replica sent since its last snapshot (input of the reference replica).
    pub sent_since: Vec<Vec<super::refmodel::Sent>>,
    /// Outbound channel of the live incarnation of each node.
    pub outs: Rc<std::cell::RefCell<Vec<Option<channel::UnboundedReceiver<ConsensusInputMessage>>>>>,
}

pub enum Obs {
    Msg(usize, validator::Signed<validator::ConsensusMsg>),
    Snap(usize, bft::verif::Snapshot),
}

pub fn make_committee(cfg: &Cfg) -> Committee {
    let mut rng = kit::stream(cfg.seed, "keys");
    let keys: Vec<validator::SecretKey> = (0..cfg.weights.len()).map(|_| rng.gen()).collect();
    let infos: Vec<_> = keys
        .iter()
        .enumerate()
        .map(|(i, k)| validator::ValidatorInfo {
            key: k.public(),
            weight: cfg.weights[i],
            leader: cfg.leaders[i],
        })
        .collect();
    let schedule = validator::Schedule::new(
        infos,
        validator::LeaderSelection {
            frequency: cfg.frequency,
            mode: if cfg.weighted {
                validator::LeaderSelectionMode::Weighted
            } else {
                validator::LeaderSelectionMode::RoundRobin
            },
        },
    )
    .expect("schedule");
    let genesis = validator::GenesisRaw {
        chain_id: validator::ChainId(1337),
        fork_number: validator::ForkNumber(cfg.seed % 7),
        protocol_version: validator::ProtocolVersion::CURRENT,
        first_block: validator::BlockNumber(cfg.first_block),
        validators_schedule: Some(schedule.clone()),
    }
    .with_hash();
    Committee {
        pubkeys: keys.iter().map(|k| k.public()).collect(),
        keys,
        weights: cfg.weights.clone(),
        byz: cfg.byz.clone(),
        genesis,
        schedule,
    }
}

impl Cluster {
    pub fn new(cfg: Cfg, sched: Rc<Sched>, keep_log: bool) -> Self {
        let committee = make_committee(&cfg);
        let n = committee.n();
        let hub = Arc::new(Hub::new(
            committee.clone(),
            kit::stream(cfg.seed, "pad"),
            cfg.max_pad,
            keep_log,
        ));
        let nodes = (0..n)
            .map(|idx| Node {
                idx,
                clock: ctx::ManualClock::new(),
                store: Arc::new(Mutex::new(NodeStore::new(
                    validator::BlockNumber(cfg.first_block),
                    cfg.persist_now,
                ))),
                live: None,
                dying: vec![],
                restarts: 0,
                view: None,
                deadline: time::Deadline::Infinite,
                snap: None,
            })
            .collect();
        let twins: Vec<Twin> = match (0..n).find(|i| cfg.byz[*i]) {
            Some(b) if cfg.twins > 0 => {
                let mut rng = kit::stream(cfg.seed, "twins");
                (0..cfg.twins.min(3))
                    .map(|_| Twin {
                        idx: b,
                        clock: ctx::ManualClock::new(),
                        store: Arc::new(Mutex::new(NodeStore::new(
                            validator::BlockNumber(cfg.first_block),
                            true,
                        ))),
                        live: None,
                        out: None,
                        audience: (0..n).map(|_| rng.gen_range(0..100) < 60).collect(),
                    })
                    .collect()
            }
            _ => vec![],
        };
        let pubkeys = committee.pubkeys.clone();
        let adversary = Adversary::new(committee, kit::stream(cfg.seed, "adv"));
        let obs: Rc<std::cell::RefCell<Vec<Obs>>> = Default::default();
        let outs: Rc<std::cell::RefCell<Vec<Option<channel::UnboundedReceiver<ConsensusInputMessage>>>>> =
            Rc::new(std::cell::RefCell::new((0..n).map(|_| None).collect()));
        {
            let (obs, outs) = (obs.clone(), outs.clone());
            bft::verif::install_observer(Some(Rc::new(move |s: bft::verif::Snapshot| {
                let Some(i) = pubkeys.iter().position(|k| *k == s.key) else { return };
                let mut o = obs.borrow_mut();
                if let Some(r) = &mut outs.borrow_mut()[i] {
                    while let Some(m) = r.try_recv() {
                        o.push(Obs::Msg(i, m.message));
                    }
                }
                o.push(Obs::Snap(i, s));
            })));
        }
        Self {
            hub,
            sched,
            nodes,
            twins,
            inflight: vec![],
            next_msg_id: 0,
            group: vec![0; n],
            adversary,
            dctx: ctx::test_root(&ctx::ManualClock::new()),
            sim_ms: 0,
            delivered: 0,
            in_suffix: false,
            sync_tasks: vec![],
            sync_rng: kit::stream(cfg.seed, "sync-tamper"),
            panics_seen: kit::panics::count(),
            draining: false,
            obs,
            sent_since: (0..n).map(|_| vec![]).collect(),
            hide: None,
            outs,
            cfg,
        }
    }

    pub fn n(&self) -> usize {
        self.nodes.len()
    }
    pub fn is_byz(&self, i: usize) -> bool {
        self.cfg.byz[i]
    }

    /// Starts a new incarnation of node `i` from its durable state.
    pub fn start(&mut self, i: usize) {
        if self.is_byz(i) || self.nodes[i].live.is_some() {
            return;
        }
        let hub = self.hub.clone();
        let engine = SimEngine::new_incarnation(
            i,
            hub.committee.genesis.clone(),
            self.nodes[i].store.clone(),
            hub.clone(),
        );
        let inc = engine.inc;
        let (in_send, in_recv) = bft::create_input_channel();
        let (out_send, out_recv) = channel::unbounded();
        let (kill_send, kill_recv) = oneshot::channel();
        let mgr_slot: Arc<Mutex<Option<Arc<EngineManager>>>> = Arc::default();
        let slot = mgr_slot.clone();
        let key = hub.committee.keys[i].clone();
        let clock = self.nodes[i].clock.clone();
        let max_payload = self.cfg.max_payload;
        let view_timeout = time::Duration::milliseconds(self.cfg.view_timeout_ms);
        hub.ev(format!("n{i}.{inc} start"));
        self.nodes[i].view = None;
        self.sched.set_spawn_tag(tag_of(i, inc));
        let done = gtokio::spawn(async move {
            let root = ctx::test_root(&clock);
            let ctx = &root;
            let (mgr, runner) =
                match EngineManager::new(ctx, Box::new(engine), time::Duration::seconds(1)).await {
                    Ok(x) => x,
                    Err(ctx::Error::Canceled(_)) => return Ok(()),
                    Err(ctx::Error::Internal(e)) => return Err(e),
                };
            *slot.lock().unwrap() = Some(mgr.clone());
            let cfg = bft::Config::new(
                key,
                max_payload,
                view_timeout,
                mgr.clone(),
                validator::EpochNumber(0),
            )?;
            scope::run!(ctx, |ctx, s| async {
                s.spawn_bg(async { runner.run(ctx).await });
                s.spawn_bg(async { cfg.run(ctx, out_send, in_recv).await });
                // The incarnation lives until it is killed (or one of the components fails).
                let _ = kill_recv.recv_or_disconnected(ctx).await;
                Ok(())
            })
            .await
        });
        self.sched.set_spawn_tag(0);
        self.outs.borrow_mut()[i] = Some(out_recv);
        self.nodes[i].live = Some(Incarnation {
            inc,
            graceful: false,
            inbound: in_send,
            kill: Some(kill_send),
            done,
            mgr: mgr_slot,
        });
    }

    /// Starts twin instance `k`: the same code as a correct node, under a Byzantine validator's key.
    pub fn start_twin(&mut self, k: usize) {
        if self.twins[k].live.is_some() {
            return;
        }
        let hub = self.hub.clone();
        let i = self.twins[k].idx;
        let engine = SimEngine::new_incarnation(
            i,
            hub.committee.genesis.clone(),
            self.twins[k].store.clone(),
            hub.clone(),
        );
        let inc = engine.inc;
        let (in_send, in_recv) = bft::create_input_channel();
        let (out_send, out_recv) = channel::unbounded();
        let (kill_send, kill_recv) = oneshot::channel();
        let mgr_slot: Arc<Mutex<Option<Arc<EngineManager>>>> = Arc::default();
        let slot = mgr_slot.clone();
        let key = hub.committee.keys[i].clone();
        let clock = self.twins[k].clock.clone();
        let max_payload = self.cfg.max_payload;
        let view_timeout = time::Duration::milliseconds(self.cfg.view_timeout_ms);
        hub.ev(format!("twin{k} (key of n{i}) start"));
        self.sched.set_spawn_tag(tag_of(i, 50_000 + k as u64));
        let done = gtokio::spawn(async move {
            let root = ctx::test_root(&clock);
            let ctx = &root;
            let (mgr, runner) =
                match EngineManager::new(ctx, Box::new(engine), time::Duration::seconds(1)).await {
                    Ok(x) => x,
                    Err(ctx::Error::Canceled(_)) => return Ok(()),
                    Err(ctx::Error::Internal(e)) => return Err(e),
                };
            *slot.lock().unwrap() = Some(mgr.clone());
            let cfg = bft::Config::new(key, max_payload, view_timeout, mgr.clone(), validator::EpochNumber(0))?;
            scope::run!(ctx, |ctx, s| async {
                s.spawn_bg(async { runner.run(ctx).await });
                s.spawn_bg(async { cfg.run(ctx, out_send, in_recv).await });
                let _ = kill_recv.recv_or_disconnected(ctx).await;
                Ok(())
            })
            .await
        });
        self.sched.set_spawn_tag(0);
        self.twins[k].out = Some(out_recv);
        self.twins[k].live = Some(Incarnation {
            inc,
            graceful: true,
            inbound: in_send,
            kill: Some(kill_send),
            done,
            mgr: mgr_slot,
        });
    }

    /// Partition group of a bus address (node index, or `n + k` for twin `k`).
    fn grp(&self, x: usize) -> u8 {
        if x < self.nodes.len() {
            self.group[x]
        } else {
            self.group[self.twins[x - self.nodes.len()].idx]
        }
    }

    /// Kills the live incarnation of node `i`: from now on nothing it does is observable.
    pub fn crash(&mut self, i: usize, why: &str) {
        let Some(mut inc) = self.nodes[i].live.take() else {
            return;
        };
        {
            let mut s = self.nodes[i].store.lock().unwrap();
            if !s.dead {
                s.dead = true;
                drop(s);
                self.hub.note_crash(i);
                self.hub.inner.lock().unwrap().crashed.retain(|x| *x != i);
            }
        }
        self.outs.borrow_mut()[i] = None;
        self.hub.ev(format!("n{i}.{} crash ({why})", inc.inc));
        if let Some(k) = inc.kill.take() {
            let _ = k.send(());
        }
        // Messages it sent before the crash stay in flight; its pending inbound is lost.
        self.nodes[i].dying.push(inc);
    }

    /// Graceful stop of node `i` (context cancellation, as on operator stop or at the end of an
    /// epoch): unlike after a crash, what the node does while winding down is still real.
    pub fn stop(&mut self, i: usize, why: &str) {
        let Some(mut inc) = self.nodes[i].live.take() else {
            return;
        };
        self.outs.borrow_mut()[i] = None;
        self.hub.ev(format!("n{i}.{} graceful stop ({why})", inc.inc));
        inc.graceful = true;
        if let Some(k) = inc.kill.take() {
            let _ = k.send(());
        }
        self.nodes[i].dying.push(inc);
    }

    /// Drains outbound channels: every message a correct node sent becomes one in-flight copy
    /// per destination, after the C03 oracles have looked at it.
    pub fn pump(&mut self) {
        // Panics inside code under test: C10 (a panic aborts a production node).
        let new = kit::panics::since(self.panics_seen);
        self.panics_seen += new.len();
        for p in new {
            if p.contains("one of the tasks panicked") {
                continue; // scope re-raising a panic already reported
            }
            // Attribute the panic to the incarnation whose task made the last step.  What a
            // crashed (kill -9) incarnation does after the crash instant does not exist.
            let tag = self.sched.last_tag();
            let (node, inc) = ((tag / 100_000) as usize, tag % 100_000);
            let crashed = tag != 0
                && node >= 1
                && self.nodes[node - 1].dying.iter().any(|d| d.inc == inc && !d.graceful);
            if crashed {
                self.hub.ev(format!("(panic in crashed incarnation n{}.{inc} ignored: {p})", node - 1));
                continue;
            }
            self.hub.violation("C10", "node_panic", p);
        }
        // Nodes which died inside a durable write.
        let crashed: Vec<usize> = std::mem::take(&mut self.hub.inner.lock().unwrap().crashed);
        for i in crashed {
            self.crash(i, "inside durable write");
        }
        // Observations, in order.
        {
            let mut o = self.obs.borrow_mut();
            let mut outs = self.outs.borrow_mut();
            for i in 0..self.nodes.len() {
                if let Some(r) = &mut outs[i] {
                    while let Some(m) = r.try_recv() {
                        o.push(Obs::Msg(i, m.message));
                    }
                }
            }
        }
        let obs: Vec<Obs> = std::mem::take(&mut *self.obs.borrow_mut());
        let live_engine = |me: &Self, i: usize| -> Option<(u64, usize)> {
            let live = me.nodes[i].live.as_ref()?;
            let id = live.mgr.lock().unwrap().as_ref().map(|m| Arc::as_ptr(m) as usize)?;
            Some((live.inc, id))
        };
        for k in 0..obs.len() {
            match &obs[k] {
                Obs::Snap(i, s) => {
                    let i = *i;
                    let Some((inc, id)) = live_engine(self, i) else { continue };
                    if id != s.engine_id {
                        continue;
                    }
                    let durable = {
                        let st = self.nodes[i].store.lock().unwrap();
                        let validator::ReplicaState::V2(d) = st.disk.replica_state();
                        d
                    };
                    self.nodes[i].view = Some(s.view.0);
                    self.nodes[i].deadline = s.view_timeout;
                    self.nodes[i].snap = Some(s.clone());
                    if let Some((h, base)) = self.hide {
                        let hc = s.high_commit_qc.as_ref().map(|q| q.view().number.0);
                        if h == i && hc > base {
                            self.hide = None;
                            self.hub.fault("hidden_commit");
                            self.hub.ev(format!("n{i} alone holds the commit certificate of view {hc:?}: cut off, its messages in flight are lost"));
                            for (j, g) in self.group.iter_mut().enumerate() {
                                *g = (j == i) as u8;
                            }
                            self.inflight.retain(|m| m.from != i);
                        }
                    }
                    self.hub.on_snapshot(i, inc, s, &durable);
                    let sent = std::mem::take(&mut self.sent_since[i]);
                    self.hub.on_model_step(i, inc, s, &sent, self.cfg.max_payload);
                }
                Obs::Msg(i, m) => {
                    let i = *i;
                    let Some((inc, id)) = live_engine(self, i) else {
                        // Sent before the engine manager existed cannot happen; sent by an
                        // incarnation which has been killed meanwhile: not observable.
                        if self.nodes[i].live.is_none() {
                            continue;
                        }
                        continue;
                    };
                    let durable = {
                        let st = self.nodes[i].store.lock().unwrap();
                        let validator::ReplicaState::V2(d) = st.disk.replica_state();
                        d
                    };
                    // The state the message was sent in = the node's next snapshot.
                    let next_snap = obs[k + 1..].iter().find_map(|o| match o {
                        Obs::Snap(j, s) if *j == i && s.engine_id == id => Some(s),
                        _ => None,
                    });
                    self.hub.ev(format!("n{i}.{inc} -> {}", describe(m)));
                    if let Some(x) = super::refmodel::sent_of(m) {
                        self.sent_since[i].push(x);
                    }
                    self.hub.on_outbound(i, inc, m, &durable);
                    self.hub.check_self_justifying(i, inc, m, self.nodes[i].view, next_snap);
                    self.adversary.observe(m);
                    for to in 0..self.n() {
                        if self.is_byz(to) {
                            continue;
                        }
                        if self.hide.is_some_and(|(h, _)| h != to) && is_commit_vote(m) {
                            continue;
                        }
                        self.next_msg_id += 1;
                        self.inflight.push(InFlight { id: self.next_msg_id, from: i, to, msg: m.clone() });
                    }
                    for k in 0..self.twins.len() {
                        if self.twins[k].audience[i] && self.twins[k].live.is_some() {
                            self.next_msg_id += 1;
                            self.inflight.push(InFlight { id: self.next_msg_id, from: i, to: self.n() + k, msg: m.clone() });
                        }
                    }
                }
            }
        }
        // Twins: what an instance sends is Byzantine traffic to its audience.
        for k in 0..self.twins.len() {
            let mut sent = vec![];
            if let Some(r) = &mut self.twins[k].out {
                while let Some(m) = r.try_recv() {
                    sent.push(m.message);
                }
            }
            for m in sent {
                self.hub.fault("byz_twin_message");
                self.hub.ev(format!("twin{k} -> {}", describe_safe(&m)));
                self.adversary.observe(&m);
                let from = self.twins[k].idx;
                for to in 0..self.n() {
                    if self.is_byz(to) || !self.twins[k].audience[to] {
                        continue;
                    }
                    self.next_msg_id += 1;
                    self.inflight.push(InFlight { id: self.next_msg_id, from, to, msg: m.clone() });
                }
            }
        }
        for i in 0..self.n() {
            let mut finished = None;
            if let Some(live) = &self.nodes[i].live {
                if live.done.is_finished() {
                    finished = Some(live.inc);
                }
            }
            if let Some(inc) = finished {
                // The node's process exited on its own (component error or panic).
                self.hub.ev(format!("n{i}.{inc} exited"));
                self.hub.probe("node_exited_by_itself");
                self.crash(i, "process exited");
            }
            self.nodes[i].dying.retain(|d| !d.done.is_finished());
        }
        self.sync_tasks.retain(|t| !t.is_finished());
    }

    fn deliverable(&self) -> Vec<usize> {
        (0..self.inflight.len())
            .filter(|&k| {
                let m = &self.inflight[k];
                self.grp(m.from) == self.grp(m.to)
            })
            .collect()
    }

    pub fn deliver_msg(&mut self, to: usize, from: Option<usize>, msg: validator::Signed<validator::ConsensusMsg>) {
        if to >= self.nodes.len() {
            let k = to - self.nodes.len();
            if let Some(live) = &mut self.twins[k].live {
                let (ack, _ack_recv) = oneshot::channel();
                self.hub.ev(format!(
                    "{} => twin{k}: {}",
                    from.map(|f| format!("n{f}")).unwrap_or("adv".into()),
                    describe_safe(&msg)
                ));
                live.inbound.send(ConsensusReq { msg, ack });
            }
            return;
        }
        let Some(live) = &mut self.nodes[to].live else {
            self.hub.ev(format!("   lost (n{to} is down): {}", describe_safe(&msg)));
            return;
        };
        // The real RPC handler waits for the ack before answering; nothing else depends on it.
        let (ack, _ack_recv) = oneshot::channel();
        self.hub.ev(format!(
            "{} => n{to}: {}",
            from.map(|f| format!("n{f}")).unwrap_or("adv".into()),
            describe_safe(&msg)
        ));
        live.inbound.send(ConsensusReq { msg, ack });
        self.delivered += 1;
    }

    pub fn tick(&mut self, node: Option<usize>, ms: u64) {
        let d = time::Duration::milliseconds(ms as i64);
        match node {
            Some(i) => self.nodes[i].clock.advance(d),
            None => {
                for n in &self.nodes {
                    n.clock.advance(d);
                }
                for t in &self.twins {
                    t.clock.advance(d);
                }
                self.sim_ms += ms;
            }
        }
    }

    /// Executes one action. Async because some actions run the scheduler.
    pub async fn exec(&mut self, a: &Action) {
        let n = self.n() as u32;
        match a {
            Action::Run { steps } => {
                let max = if *steps == 0 { 20_000 } else { *steps as u64 };
                self.run_steps(max).await;
            }
            Action::Deliver { k } => {
                let d = self.deliverable();
                if d.is_empty() {
                    return;
                }
                let m = self.inflight.remove(d[*k as usize % d.len()]);
                self.deliver_msg(m.to, Some(m.from), m.msg);
            }
            Action::DeliverTo { to, n: cnt } => {
                let to = (*to % n) as usize;
                let nn = self.n();
                let twin_of = |me: &Self, x: usize| x >= nn && me.twins[x - nn].idx == to;
                for _ in 0..*cnt {
                    let Some(k) = (0..self.inflight.len()).find(|&k| {
                        let m = &self.inflight[k];
                        (m.to == to || twin_of(self, m.to)) && self.grp(m.from) == self.grp(m.to)
                    }) else {
                        break;
                    };
                    let m = self.inflight.remove(k);
                    self.deliver_msg(m.to, Some(m.from), m.msg);
                }
            }
            Action::Drop { k } => {
                if self.inflight.is_empty() {
                    return;
                }
                let k = *k as usize % self.inflight.len();
                let m = self.inflight.remove(k);
                self.hub.fault("drop");
                self.hub.ev(format!("drop n{}=>n{} {}", m.from, m.to, describe_safe(&m.msg)));
            }
            Action::Dup { k } => {
                if self.inflight.is_empty() {
                    return;
                }
                let k = *k as usize % self.inflight.len();
                let mut m = self.inflight[k].clone();
                self.next_msg_id += 1;
                m.id = self.next_msg_id;
                self.hub.fault("dup");
                self.inflight.push(m);
            }
            Action::Tick { node, ms } => {
                let node = if *node >= n { None } else { Some(*node as usize) };
                if node.is_some() {
                    self.hub.fault("clock_skew");
                }
                self.hub.ev(format!("tick {node:?} +{ms}ms"));
                self.tick(node, *ms as u64);
            }
            Action::Crash { node } => {
                let i = (*node % n) as usize;
                if self.nodes[i].live.is_some() {
                    self.hub.fault("crash");
                    self.crash(i, "director");
                }
            }
            Action::ArmWriteFault { node, k, applied, error } => {
                let i = (*node % n) as usize;
                if self.is_byz(i) {
                    return;
                }
                let mut s = self.nodes[i].store.lock().unwrap();
                let at = s.write_attempts + 1 + *k as u64;
                s.fault_at = Some((
                    at,
                    if *error {
                        WriteFault::Error
                    } else {
                        WriteFault::Crash { applied: *applied }
                    },
                ));
            }
            Action::Restart { node } => {
                let i = (*node % n) as usize;
                // A process restarts only after its previous (gracefully stopping) instance exited.
                let stopping = self.nodes[i].dying.iter().any(|d| d.graceful);
                if !self.is_byz(i) && self.nodes[i].live.is_none() && !stopping {
                    self.nodes[i].restarts += 1;
                    self.hub.fault("restart");
                    self.start(i);
                }
            }
            Action::Cut { mask } => {
                for i in 0..self.n() {
                    self.group[i] = ((mask >> i) & 1) as u8;
                }
                self.hub.fault("partition");
                self.hub.ev(format!("cut {:?}", self.group));
            }
            Action::Heal => {
                self.hide = None;
                self.group.iter_mut().for_each(|g| *g = 0);
                self.hub.ev("heal".into());
            }
            Action::Persist { node } => {
                // node >= n: one pending block on every node.
                let targets: Vec<usize> = if *node >= n { (0..n as usize).collect() } else { vec![*node as usize] };
                for i in targets {
                    let r = self.nodes[i].store.lock().unwrap().persist_one();
                    if let Some(b) = r {
                        self.hub.fault("persist_lag");
                        self.hub.ev(format!("n{i} persisted block {}", b.0));
                    }
                }
            }
            Action::FailSetState { node, n: cnt } => {
                let i = (*node % n) as usize;
                self.nodes[i].store.lock().unwrap().fail_set_state = *cnt;
            }
            Action::RejectPayloads { node, n: cnt } => {
                let i = (*node % n) as usize;
                self.nodes[i].store.lock().unwrap().reject_payloads = *cnt;
            }
            Action::Sync { to, off } => {
                let i = (*to % n) as usize;
                self.sync_block(i, *off as u64);
            }
            Action::Byz { kind, a, b, c } => {
                let out = self.adversary.act(*kind, *a, *b, *c, &self.hub);
                for (to, msg) in out {
                    if !self.is_byz(to) {
                        self.deliver_msg(to, None, msg);
                    }
                }
            }
            Action::HideCommit { to, byz_next } => {
                let correct: Vec<usize> = (0..self.n()).filter(|i| !self.is_byz(*i)).collect();
                if correct.is_empty() || self.hide.is_some() {
                    return;
                }
                let to = correct[*to as usize % correct.len()];
                if *byz_next {
                    let next = self.nodes[to].view.unwrap_or(0).saturating_add(1);
                    let leader = self.hub.committee.schedule.view_leader(validator::ViewNumber(next));
                    if !self.hub.committee.idx(&leader).is_some_and(|l| self.is_byz(l)) {
                        return;
                    }
                }
                let base = self.nodes[to].snap.as_ref().and_then(|s| s.high_commit_qc.as_ref().map(|q| q.view().number.0));
                self.hub.ev(format!("from now on commit votes reach only n{to} (until it holds a newer commit certificate than {base:?})"));
                // Votes already in flight to others are lost too.
                self.inflight.retain(|m| m.to == to || !is_commit_vote(&m.msg));
                self.hide = Some((to, base));
            }
            Action::Replay { k, to } => {
                let to = (*to % n) as usize;
                if self.is_byz(to) || self.adversary.history.is_empty() {
                    return;
                }
                let m = self.adversary.history[*k as usize % self.adversary.history.len()].clone();
                self.hub.fault("dup_late");
                self.deliver_msg(to, None, m);
            }
            Action::Retwin { mask } => {
                let k = self.twins.len() as u64;
                if k == 0 {
                    return;
                }
                for j in 0..self.n() {
                    let v = (mask >> (2 * j as u64 % 64)) & 3;
                    for t in 0..k {
                        self.twins[t as usize].audience[j] = v % (k + 1) == t || v % (k + 1) == k;
                    }
                }
                self.hub.fault("byz_twins_repartitioned");
                self.hub.ev(format!(
                    "twins' audiences: {:?}",
                    self.twins.iter().map(|t| t.audience.iter().map(|b| if *b { '1' } else { '0' }).collect::<String>()).collect::<Vec<_>>()
                ));
            }
            Action::Stop { node } => {
                let i = (*node % n) as usize;
                if self.nodes[i].live.is_some() {
                    self.hub.fault("graceful_stop");
                    self.stop(i, "director");
                }
            }
            Action::Suffix => {
                self.enter_suffix();
            }
        }
    }

    pub fn enter_suffix(&mut self) {
        self.in_suffix = true;
        self.hub.ev("--- fair suffix ---".into());
        self.group.iter_mut().for_each(|g| *g = 0);
        for i in 0..self.n() {
            if !self.is_byz(i) {
                let mut s = self.nodes[i].store.lock().unwrap();
                s.fault_at = None;
                s.fail_set_state = 0;
                s.reject_payloads = 0;
                s.persist_now = true;
                while s.persist_one().is_some() {}
                drop(s);
                if self.nodes[i].live.is_none() {
                    self.start(i);
                }
            }
        }
    }

    /// Block sync: hands a committed block (as the gossip fetcher would after a `get_block` RPC)
    /// to node `i`'s engine manager.
    pub fn sync_block(&mut self, i: usize, off: u64) {
        let Some(live) = &self.nodes[i].live else { return };
        let Some(mgr) = live.mgr.lock().unwrap().clone() else {
            return;
        };
        let want = mgr.queued().next().0 + off;
        let Some(block) = self.hub.inner.lock().unwrap().ledger.get(&want).cloned() else {
            return;
        };
        self.hub.fault("block_sync");
        self.hub.ev(format!("sync block {want} -> n{i}"));
        // A faulty peer serves the genuine certificate with a foreign payload (never in the fair
        // suffix, where block sync is what progress is owed to).
        let mut block = block;
        if !self.in_suffix && self.sync_rng.gen_range(0..100) < 25 {
            self.hub.fault("block_sync_tampered_payload");
            self.hub.ev(format!("   (payload of block {want} altered by the serving peer)"));
            match &mut block {
                validator::Block::FinalV2(f) => f.payload.0.push(0x66),
                validator::Block::PreGenesis(p) => p.payload.0.push(0x66),
            }
        }
        let clock = self.nodes[i].clock.clone();
        let hub = self.hub.clone();
        self.sync_tasks.push(gtokio::spawn(async move {
            let root = ctx::test_root(&clock);
            // The fetcher gives up after a while; so do we.
            let ctx = &root.with_timeout(time::Duration::seconds(10));
            match mgr.queue_block(ctx, block).await {
                Ok(()) => {}
                Err(ctx::Error::Canceled(_)) => {}
                Err(ctx::Error::Internal(e)) => {
                    hub.ev(format!("sync n{i}: queue_block error: {e:#}"));
                }
            }
        }));
    }

    pub async fn run_steps(&mut self, max: u64) -> u64 {
        // One step at a time: after every step the outbound channels are examined, so that the
        // oracles see each message at the instant it was sent.
        self.sched.settle().await;
        self.pump();
        let mut n = 0;
        while n < max {
            if !self.draining && self.hub.has_violation() {
                break;
            }
            if !self.sched.step().await {
                break;
            }
            n += 1;
            self.pump();
        }
        n
    }

    /// Gracefully stops everything so that the runtime can be dropped.
    pub async fn shutdown(&mut self) -> Result<(), String> {
        self.draining = true;
        for i in 0..self.n() {
            if self.nodes[i].live.is_some() {
                self.stop(i, "end of run");
            }
        }
        let mut twin_tasks = vec![];
        for t in &mut self.twins {
            t.out = None;
            if let Some(mut inc) = t.live.take() {
                if let Some(k) = inc.kill.take() {
                    let _ = k.send(());
                }
                twin_tasks.push(inc);
            }
        }
        // Unblock anything waiting for time.
        for round in 0..200 {
            self.run_steps(50_000).await;
            twin_tasks.retain(|d| !d.done.is_finished());
            let alive: usize = self.nodes.iter().map(|n| n.dying.len()).sum::<usize>()
                + self.sync_tasks.len()
                + twin_tasks.len();
            if alive == 0 && self.sched.live() == 0 {
                return Ok(());
            }
            if round > 2 {
                self.tick(None, 60_000);
            }
        }
        Err(format!(
            "shutdown: {} tasks still alive ({} ready)",
            self.sched.live(),
            self.sched.ready_len()
        ))
    }

    /// Durable chain height of the lowest correct node / highest.
    pub fn heights(&self) -> Vec<u64> {
        self.nodes
            .iter()
            .filter(|n| !self.cfg.byz[n.idx])
            .map(|n| n.store.lock().unwrap().disk.next().0)
            .collect()
    }
}

/// `describe` evaluates `view()` of justifications, which overflows for absurd values.
fn is_commit_vote(m: &validator::Signed<validator::ConsensusMsg>) -> bool {
    matches!(&m.msg, validator::ConsensusMsg::V2(validator::v2::ChonkyMsg::ReplicaCommit(_)))
}

pub fn describe_safe(msg: &validator::Signed<validator::ConsensusMsg>) -> String {
    let validator::ConsensusMsg::V2(m) = &msg.msg;
    let absurd = match m {
        v2::ChonkyMsg::LeaderProposal(p) => just_view(&p.justification) == u64::MAX,
        v2::ChonkyMsg::ReplicaNewView(p) => just_view(&p.justification) == u64::MAX,
        _ => false,
    };
    if absurd {
        return "<message with view 2^64-1 in justification>".into();
    }
    describe(msg)
}

pub fn just_view(j: &v2::ProposalJustification) -> u64 {
    match j {
        v2::ProposalJustification::Commit(q) => q.view().number.0,
        v2::ProposalJustification::Timeout(q) => q.view.number.0,
    }
}

// ---------------------------------------------------------------------------------------------
// Generation of configurations and plans from a seed.

pub fn gen_cfg(seed: u64, profile: Profile) -> Cfg {
    let mut rng = kit::stream(seed, "cfg");
    let n = match profile {
        Profile::Small => rng.gen_range(1..=4),
        _ => *[1usize, 2, 3, 4, 4, 5, 6, 6, 6, 7, 8].choose(&mut rng).unwrap(),
    };
    let weights: Vec<u64> = (0..n)
        .map(|_| *[1u64, 1, 1, 1, 2, 2, 3, 5, 10].choose(&mut rng).unwrap())
        .collect();
    let total: u64 = weights.iter().sum();
    let f = (total - 1) / 5;
    // Byzantine subset with weight <= f: greedy over a random order, often exactly f, often empty.
    let mut byz = vec![false; n];
    let want_byz = profile != Profile::FaultFree && rng.gen_range(0..100) < 65;
    if want_byz {
        let mut order: Vec<usize> = (0..n).collect();
        order.shuffle(&mut rng);
        let mut left = f;
        for i in order {
            if weights[i] <= left {
                byz[i] = true;
                left -= weights[i];
            }
        }
    }
    let mut leaders: Vec<bool> = (0..n).map(|_| rng.gen_range(0..100) < 80).collect();
    // At least one correct validator must be eligible (otherwise no progress is owed).
    if !(0..n).any(|i| leaders[i] && !byz[i]) {
        let i = (0..n).find(|i| !byz[*i]).unwrap();
        leaders[i] = true;
    }
    let weighted = rng.gen_range(0..100) < 35;
    let frequency = *[1u64, 1, 1, 1, 2, 3, 7, 0].choose(&mut rng).unwrap();
    let first_block = if rng.gen_bool(0.5) { 0 } else { rng.gen_range(1..1000) };
    let policy = match rng.gen_range(0..10) {
        0 => Policy::Fifo,
        1..=4 => Policy::Uniform,
        5..=7 => Policy::Sticky(rng.gen_range(50..95)),
        _ => Policy::Lifo(rng.gen_range(30..80)),
    };
    let mut faults = FaultMix::none();
    if profile != Profile::FaultFree {
        // Swarm: each fault class is on in about half of the runs, with its own intensity.
        let mut pick = |p: u32, max: u32| if rng.gen_range(0..100) < p { rng.gen_range(1..=max) } else { 0 };
        faults.drop = pick(50, 12);
        faults.dup = pick(40, 8);
        faults.reorder = pick(60, 30);
        faults.partition = pick(35, 4);
        faults.crash = pick(45, 5);
        faults.crash_in_write = pick(45, 5);
        faults.disk_error = pick(15, 2);
        faults.clock = pick(40, 10);
        faults.sync = pick(50, 8);
        faults.short_steps = pick(50, 20);
        if byz.iter().any(|b| *b) {
            faults.byz = rng.gen_range(3..25);
        }
    }
    // A view costs about 3 n^2 message deliveries; aim at 5..25 views.
    let nn = (n * n).max(4);
    let n_actions = (rng.gen_range(8..30) * nn).clamp(100, 1600);
    Cfg {
        seed,
        weights,
        leaders,
        byz,
        weighted,
        frequency,
        first_block,
        max_payload: *[64usize, 200, 1000].choose(&mut rng).unwrap(),
        max_pad: *[0usize, 8, 40].choose(&mut rng).unwrap(),
        view_timeout_ms: *[500i64, 2000, 2000, 10_000].choose(&mut rng).unwrap(),
        policy,
        persist_now: rng.gen_range(0..100) < 60,
        faults,
        n_actions,
        twins: 0,
        arm: None,
    }
}

#[derive(Debug, Clone, Copy, PartialEq, Eq)]
pub enum Profile {
    /// No faults at all: keeps the oracles honest.
    FaultFree,
    /// Full swarm.
    Swarm,
    /// Small committees, short plans (cheap runs).
    Small,
}

pub fn gen_plan(cfg: &Cfg) -> Vec<Action> {
    let mut rng = kit::stream(cfg.seed, "plan");
    let n = cfg.weights.len() as u32;
    let f = &cfg.faults;
    let len = cfg.n_actions;
    let vt = cfg.view_timeout_ms as u32;
    // 1. The benign backbone: deliveries (mostly oldest first), bursts, small and large ticks.
    let reorder_pct = f.reorder.min(60);
    let mut plan: Vec<Action> = (0..len)
        .map(|_| match rng.gen_range(0..100) {
            0..=49 => Action::Deliver {
                k: if rng.gen_range(0..100) < reorder_pct { rng.gen() } else { rng.gen_range(0..3) },
            },
            50..=87 => Action::DeliverTo { to: rng.gen_range(0..n), n: rng.gen_range(1..12) },
            88..=96 => Action::Tick { node: n, ms: vt * rng.gen_range(1..=8) / 100 },
            _ => {
                if rng.gen_range(0..100) < 25 {
                    Action::Tick { node: n, ms: vt * rng.gen_range(100..=130) / 100 }
                } else {
                    Action::Tick { node: n, ms: vt * rng.gen_range(10..=40) / 100 }
                }
            }
        })
        .collect();
    // 2. Faults: a number of occurrences per enabled class, inserted at random positions.
    //    Intensities are small numbers per run so that the system makes progress in between.
    let mut extra: Vec<(usize, Action)> = vec![];
    let pos = |rng: &mut crate::kit::SimRng| rng.gen_range(0..len.max(1));
    let count = |rng: &mut crate::kit::SimRng, level: u32, per_100: u32| -> usize {
        if level == 0 {
            0
        } else {
            let max = (len as u32 * per_100 * level / 1000).max(1);
            rng.gen_range(1..=max) as usize
        }
    };
    // level is 1..=12-ish; per_100 = occurrences per 100 actions at level 10.
    for _ in 0..count(&mut rng, f.drop, 4) {
        extra.push((pos(&mut rng), Action::Drop { k: rng.gen() }));
    }
    for _ in 0..count(&mut rng, f.dup, 4) {
        extra.push((pos(&mut rng), Action::Dup { k: rng.gen() }));
    }
    for _ in 0..count(&mut rng, f.clock, 2) {
        extra.push((
            pos(&mut rng),
            Action::Tick { node: rng.gen_range(0..n), ms: vt * rng.gen_range(1..=30) / 10 },
        ));
    }
    if f.partition > 0 {
        for _ in 0..rng.gen_range(1..=f.partition.min(3)) {
            let at = pos(&mut rng);
            extra.push((at, Action::Cut { mask: rng.gen_range(1..(1u32 << n).max(2)) }));
            if rng.gen_range(0..100) < 90 {
                extra.push((at + rng.gen_range(5..200), Action::Heal));
            }
        }
    }
    if f.crash > 0 {
        for _ in 0..rng.gen_range(1..=f.crash.min(4)) {
            let at = pos(&mut rng);
            let node = rng.gen_range(0..n);
            extra.push((at, Action::Crash { node }));
            if rng.gen_range(0..100) < 85 {
                extra.push((at + rng.gen_range(1..120), Action::Restart { node }));
            }
        }
        if rng.gen_range(0..100) < 40 {
            let at = pos(&mut rng);
            let node = rng.gen_range(0..n);
            extra.push((at, Action::Stop { node }));
            extra.push((at + rng.gen_range(1..120), Action::Restart { node }));
        }
    }
    if f.crash_in_write > 0 {
        for _ in 0..rng.gen_range(1..=f.crash_in_write.min(4)) {
            let at = pos(&mut rng);
            let node = rng.gen_range(0..n);
            extra.push((
                at,
                Action::ArmWriteFault { node, k: rng.gen_range(0..6), applied: rng.gen(), error: false },
            ));
            if rng.gen_range(0..100) < 85 {
                extra.push((at + rng.gen_range(5..150), Action::Restart { node }));
            }
        }
    }
    if f.disk_error > 0 {
        for _ in 0..rng.gen_range(1..=f.disk_error.min(2)) {
            let at = pos(&mut rng);
            let node = rng.gen_range(0..n);
            if rng.gen() {
                extra.push((at, Action::ArmWriteFault { node, k: rng.gen_range(0..6), applied: false, error: true }));
            } else {
                extra.push((at, Action::FailSetState { node, n: rng.gen_range(1..3) }));
            }
            extra.push((at + rng.gen_range(5..150), Action::Restart { node }));
        }
    }
    for _ in 0..count(&mut rng, f.sync, 3) {
        extra.push((pos(&mut rng), Action::Sync { to: rng.gen_range(0..n), off: rng.gen_range(0..3) }));
    }
    for _ in 0..count(&mut rng, f.byz, 6) {
        extra.push((
            pos(&mut rng),
            Action::Byz { kind: rng.gen_range(0..20), a: rng.gen(), b: rng.gen(), c: rng.gen() },
        ));
    }
    if !cfg.persist_now {
        for _ in 0..(len / 6).max(4) {
            extra.push((pos(&mut rng), Action::Persist { node: rng.gen_range(0..2 * n) }));
        }
    }
    // Stable merge by position (ties keep generation order).
    extra.sort_by_key(|(p, _)| *p);
    let mut merged = Vec::with_capacity(plan.len() + extra.len());
    let mut e = extra.into_iter().peekable();
    for (i, a) in plan.drain(..).enumerate() {
        while e.peek().is_some_and(|(p, _)| *p <= i) {
            merged.push(e.next().unwrap().1);
        }
        merged.push(a);
    }
    merged.extend(e.map(|(_, a)| a));
    // 3. After every action tasks run: to quiescence, or (sometimes) only a few steps, so that
    //    the next external action lands in the middle of message processing.
    let mut out = Vec::with_capacity(merged.len() * 2);
    for a in merged {
        out.push(a);
        let steps = if f.short_steps > 0 && rng.gen_range(0..100) < f.short_steps {
            rng.gen_range(1..12)
        } else {
            0
        };
        out.push(Action::Run { steps });
    }
    out
}

/// Summary of one run.
#[derive(Debug, Clone, Serialize, Deserialize, Default)]
pub struct RunStats {
    pub seed: u64,
    pub steps: u64,
    pub events: u64,
    pub delivered: u64,
    pub sim_ms: u64,
    pub min_height: u64,
    pub max_height: u64,
    pub blocks_committed: u64,
    pub max_view: u64,
    pub log_fp: u64,
    pub sched_fp: u64,
    pub spawned: u64,
    pub faults: BTreeMap<String, u64>,
    pub probes: BTreeMap<String, u64>,
    pub abstract_states: Vec<u64>,
    pub panics: Vec<String>,
    pub harness_error: Option<String>,
    /// Durable write attempts per node over the whole run.
    #[serde(default)]
    pub writes: Vec<u64>,
}

/// Number of views with a correct leader, entered by every correct node during the fair
/// suffix, within which every correct node must have committed a new block (C06).
pub const LIVENESS_VIEWS: u64 = 5;

/// C06: the fair synchronous suffix and its progress oracle.
///
/// All correct nodes run, links are healed, every message between correct nodes is delivered
/// within one round (= timeout/10 of simulated time) in random order, block sync serves any
/// block some correct node committed, storage answers at once, clocks run at the same rate.
/// Byzantine validators stay silent or keep misbehaving (without flooding).
pub async fn liveness_suffix(cl: &mut Cluster) {
    let mut rng = kit::stream(cl.cfg.seed, "suffix");
    cl.enter_suffix();
    // Wait for gracefully stopping instances to exit, then start whoever is down.
    cl.run_steps(50_000).await;
    for i in 0..cl.n() {
        if !cl.is_byz(i) && cl.nodes[i].live.is_none() {
            cl.start(i);
        }
    }
    cl.run_steps(50_000).await;
    let correct: Vec<usize> = cl.hub.committee.correct().collect();
    let h0: Vec<u64> = correct.iter().map(|i| cl.nodes[*i].store.lock().unwrap().disk.next().0).collect();
    let v0 = correct.iter().filter_map(|i| cl.nodes[*i].view).max().unwrap_or(0);
    let byz_active = rng.gen_range(0..100) < 50;
    let round_ms = (cl.cfg.view_timeout_ms as u64 / 10).max(1);
    let schedule = cl.hub.committee.schedule.clone();
    let is_correct_leader = |v: u64, cl: &Cluster| {
        cl.hub
            .committee
            .idx(&schedule.view_leader(validator::ViewNumber(v)))
            .is_some_and(|l| !cl.cfg.byz[l])
    };
    let mut last_min_view = 0u64;
    let mut last_advance_round = 0u64;
    let max_rounds = 10 * (LIVENESS_VIEWS + 2 * cl.n() as u64 * cl.cfg.frequency.max(1) + 10) * 3;
    for round in 0..max_rounds {
        if cl.hub.has_violation() {
            return;
        }
        // Everything in flight is delivered, in random order.
        let mut msgs = std::mem::take(&mut cl.inflight);
        msgs.shuffle(&mut rng);
        for m in msgs {
            cl.deliver_msg(m.to, Some(m.from), m.msg);
            if rng.gen_range(0..100) < 30 {
                cl.run_steps(50_000).await;
            }
        }
        cl.run_steps(50_000).await;
        if byz_active && rng.gen_range(0..100) < 40 {
            // No floods (kind 15) during the suffix.
            let kind = rng.gen_range(0..15);
            let a = Action::Byz { kind, a: rng.gen(), b: rng.gen(), c: rng.gen() };
            cl.exec(&a).await;
            cl.run_steps(50_000).await;
        }
        // Block sync serves whatever some correct node has.
        for &i in &correct {
            cl.sync_block(i, 0);
        }
        cl.run_steps(50_000).await;
        cl.tick(None, round_ms);
        cl.run_steps(50_000).await;
        // Oracle.
        let grown = correct
            .iter()
            .zip(&h0)
            .all(|(i, h)| cl.nodes[*i].store.lock().unwrap().disk.next().0 > *h);
        if grown {
            cl.hub.probe("suffix_progress");
            cl.hub.ev(format!("suffix: every correct node committed a new block after {round} rounds"));
            return;
        }
        let min_view = correct.iter().map(|i| cl.nodes[*i].view.unwrap_or(0)).min().unwrap_or(0);
        if min_view > last_min_view {
            last_min_view = min_view;
            last_advance_round = round;
        }
        // Views V0+1 ..= min_view-1 have been entered *and left* by every correct node while the
        // network was synchronous.
        let done_views = (v0 + 1..min_view).filter(|v| is_correct_leader(*v, cl)).count() as u64;
        if done_views >= LIVENESS_VIEWS {
            let stuck: Vec<String> = correct
                .iter()
                .zip(&h0)
                .filter(|(i, h)| cl.nodes[**i].store.lock().unwrap().disk.next().0 <= **h)
                .map(|(i, _)| format!("n{i}"))
                .collect();
            cl.hub.violation(
                "C06",
                "no_commit_in_fair_suffix",
                format!(
                    "{done_views} views with correct leaders (views {}..{}) passed in the synchronous suffix, yet {} did not commit a new block",
                    v0 + 1,
                    min_view - 1,
                    stuck.join(",")
                ),
            );
            return;
        }
        if round - last_advance_round > 45 {
            cl.hub.violation(
                "C06",
                "views_stuck_in_fair_suffix",
                format!(
                    "no correct node left view {min_view} for {} rounds (4.5 view timeouts) of the synchronous suffix",
                    round - last_advance_round
                ),
            );
            return;
        }
    }
    cl.hub.probe("suffix_inconclusive");
}
