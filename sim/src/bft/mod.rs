//! E1 `bftsim`: consensus cluster simulation.
pub mod adversary;
pub mod cluster;
pub mod engine;
pub mod hub;
pub mod refmodel;

use std::rc::Rc;

use serde::{Deserialize, Serialize};

pub use cluster::{gen_cfg, gen_plan, Action, Cfg, Cluster, Profile, RunStats};

use crate::kit::{self, run_sim, Sched, Violation};

#[derive(Debug, Clone, Default)]
pub struct RunOpts {
    pub keep_log: bool,
    pub record_picks: bool,
    /// Explicit scheduler picks (replay of a recorded schedule).
    pub picks: Option<Vec<u32>>,
    /// Append a fair suffix and check progress (C06).
    pub liveness: bool,
    /// Property whose first violation ends the run.
    pub focus: Option<String>,
}

#[derive(Debug, Clone, Serialize, Deserialize)]
pub struct RunOutcome {
    pub stats: RunStats,
    pub violations: Vec<Violation>,
    pub log: Vec<String>,
    pub picks: Vec<u32>,
}

/// Executes one simulated cluster run.
pub fn run_one(cfg: &Cfg, plan: &[Action], opts: &RunOpts) -> RunOutcome {
    kit::entropy::isolated(cfg.seed, || run_one_inner(cfg, plan, opts))
}

fn run_one_inner(cfg: &Cfg, plan: &[Action], opts: &RunOpts) -> RunOutcome {
    let sched = Rc::new(match &opts.picks {
        Some(p) => Sched::with_tape(p.clone(), opts.record_picks),
        None => Sched::new(cfg.seed, cfg.policy, opts.record_picks),
    });
    kit::panics::take();
    let cfg2 = cfg.clone();
    let keep_log = opts.keep_log;
    let liveness = opts.liveness;
    let focus = opts.focus.clone();
    let (mut out, rt_res) = run_sim(cfg.seed, sched.clone(), move |sched| async move {
        let mut cl = Cluster::new(cfg2, sched.clone(), keep_log);
        cl.hub.inner.lock().unwrap().focus = focus;
        if let Some((node, k, applied)) = cl.cfg.arm {
            let i = node as usize % cl.n();
            cl.nodes[i].store.lock().unwrap().fault_at = Some((k, engine::WriteFault::Crash { applied }));
        }
        for i in 0..cl.n() {
            cl.start(i);
        }
        for k in 0..cl.twins.len() {
            cl.start_twin(k);
        }
        cl.run_steps(50_000).await;
        for a in plan {
            if cl.hub.has_violation() {
                break;
            }
            cl.exec(a).await;
        }
        if liveness && !cl.hub.has_violation() {
            cluster::liveness_suffix(&mut cl).await;
        }
        let heights = cl.heights();
        let shutdown = cl.shutdown().await;
        let mut stats = RunStats {
            seed: cl.cfg.seed,
            steps: sched.steps(),
            delivered: cl.delivered,
            sim_ms: cl.sim_ms,
            min_height: heights.iter().copied().min().unwrap_or(0) - cl.cfg.first_block,
            max_height: heights.iter().copied().max().unwrap_or(0) - cl.cfg.first_block,
            sched_fp: sched.fingerprint(),
            spawned: sched.spawned(),
            harness_error: shutdown.err(),
            writes: cl.nodes.iter().map(|n| n.store.lock().unwrap().write_attempts).collect(),
            ..Default::default()
        };
        let i = cl.hub.inner.lock().unwrap();
        stats.events = i.log.seq();
        stats.log_fp = i.log.fingerprint();
        stats.blocks_committed = i.ledger.len() as u64;
        stats.max_view = cl.adversary.max_view;
        stats.faults = i.faults.clone();
        stats.probes = i.probes.clone();
        stats.abstract_states = i.abstract_states.iter().copied().collect();
        RunOutcome {
            stats,
            violations: i.violations.clone(),
            log: i.log.lines(),
            picks: sched.picks(),
        }
    });
    out.stats.panics = kit::panics::take();
    if let Err(e) = rt_res {
        out.stats.harness_error.get_or_insert(e);
    }
    out
}
