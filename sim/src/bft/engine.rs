//! `SimEngine`: the execution layer + disk of one simulated node.
//!
//! Durable part (`Disk`) survives restarts, everything else belongs to one incarnation.
//! Every call is a scheduling point, is logged, and is checked against the interface contract.
use std::sync::{Arc, Mutex};

use zksync_concurrency::{ctx, sync, verif::sched_point};
use zksync_consensus_engine::{BlockStoreState, EngineInterface, Last, Transaction};
use zksync_consensus_roles::validator;

use super::hub::Hub;

/// Durable state of a node.
#[derive(Debug, Clone)]
pub struct Disk {
    /// Encoded `ReplicaState` (through the repo's protobuf codec), if ever written.
    pub state: Option<Vec<u8>>,
    pub first: validator::BlockNumber,
    /// Contiguous blocks starting at `first`.
    pub blocks: Vec<validator::Block>,
    /// Number of durable writes performed so far (set_state + block persists).
    pub writes: u64,
}

impl Disk {
    pub fn new(first: validator::BlockNumber) -> Self {
        Self {
            state: None,
            first,
            blocks: vec![],
            writes: 0,
        }
    }
    pub fn next(&self) -> validator::BlockNumber {
        validator::BlockNumber(self.first.0 + self.blocks.len() as u64)
    }
    pub fn block(&self, n: validator::BlockNumber) -> Option<&validator::Block> {
        self.blocks.get(n.0.checked_sub(self.first.0)? as usize)
    }
    pub fn store_state(&self) -> BlockStoreState {
        BlockStoreState {
            first: self.first,
            last: self.blocks.last().map(Last::from),
        }
    }
    pub fn replica_state(&self) -> validator::ReplicaState {
        match &self.state {
            None => validator::ReplicaState::default(),
            Some(b) => zksync_protobuf::decode(b).expect("durable replica state must decode"),
        }
    }
}

/// What the fault plan wants from the next durable write of a node.
#[derive(Debug, Clone, Copy, PartialEq, Eq)]
pub enum WriteFault {
    None,
    /// Crash inside the write; `applied` tells whether the write reached the disk.
    Crash { applied: bool },
    /// Return an I/O error (write not applied).
    Error,
}

/// Per-node state shared between the node's engines (one per incarnation) and the director.
#[derive(Debug)]
pub struct NodeStore {
    pub disk: Disk,
    /// Current incarnation number; engines of older incarnations are dead.
    pub inc: u64,
    /// The current incarnation has been killed (crash) and not yet restarted.
    pub dead: bool,
    /// Blocks accepted by `queue_next_block` but not yet persisted (persistence lag).
    pub pending: Vec<validator::Block>,
    /// If true `queue_next_block` persists at once, otherwise the director decides when.
    pub persist_now: bool,
    /// Crash/err at the k-th (1-based, counted over the node's lifetime) durable write attempt.
    pub write_attempts: u64,
    pub fault_at: Option<(u64, WriteFault)>,
    /// Remaining number of set_state calls to fail with an I/O error ("disk full").
    pub fail_set_state: u32,
    pub fail_get_block: u32,
    /// Remaining number of `get_block` calls answered with a block whose payload was altered
    /// (Byzantine storage / peer): number and certificate intact, payload not.
    pub tamper_get_block: u32,
    /// Number of read errors ever armed (readers relax their oracle once one was injected).
    pub read_faults_fired: u32,
    /// Payload verification verdict override: reject everything while > 0.
    pub reject_payloads: u32,
    /// Watch of the *current* incarnation.
    pub persisted: Option<Arc<sync::watch::Sender<BlockStoreState>>>,
    pub proposed: u64,
    /// Number of `get_block` / `push_tx` calls which reached the execution layer.
    pub get_block_calls: u64,
    pub push_tx_calls: u64,
}

impl NodeStore {
    pub fn new(first: validator::BlockNumber, persist_now: bool) -> Self {
        Self {
            disk: Disk::new(first),
            inc: 0,
            dead: true,
            pending: vec![],
            persist_now,
            write_attempts: 0,
            fault_at: None,
            fail_set_state: 0,
            fail_get_block: 0,
            tamper_get_block: 0,
            read_faults_fired: 0,
            reject_payloads: 0,
            persisted: None,
            proposed: 0,
            get_block_calls: 0,
            push_tx_calls: 0,
        }
    }

    /// Makes the oldest pending block durable. Returns its number.
    pub fn persist_one(&mut self) -> Option<validator::BlockNumber> {
        if self.pending.is_empty() {
            return None;
        }
        let b = self.pending.remove(0);
        let n = b.number();
        if n == self.disk.next() {
            self.disk.blocks.push(b);
            self.disk.writes += 1;
            self.publish();
        }
        Some(n)
    }

    pub fn publish(&self) {
        if let Some(p) = &self.persisted {
            let st = self.disk.store_state();
            p.send_if_modified(|s| {
                if *s == st {
                    return false;
                }
                *s = st;
                true
            });
        }
    }
}

#[derive(Debug)]
pub struct SimEngine {
    pub node: usize,
    pub inc: u64,
    pub genesis: validator::Genesis,
    pub store: Arc<Mutex<NodeStore>>,
    pub persisted: Arc<sync::watch::Sender<BlockStoreState>>,
    pub hub: Arc<Hub>,
    /// Pre-genesis blocks the execution layer vouches for.
    pub pregenesis: Arc<std::collections::BTreeMap<u64, validator::PreGenesisBlock>>,
    /// The execution layer also vouches for any externally justified block numbered at or above
    /// this number (it does not know where consensus-certified blocks begin: enforcing the genesis
    /// bound is the engine manager's job).
    pub vouch_from: Option<u64>,
}

impl SimEngine {
    /// Creates the engine of a new incarnation of `node` from its durable state.
    pub fn new_incarnation(
        node: usize,
        genesis: validator::Genesis,
        store: Arc<Mutex<NodeStore>>,
        hub: Arc<Hub>,
    ) -> Self {
        let mut s = store.lock().unwrap();
        s.inc += 1;
        s.dead = false;
        s.pending.clear();
        let persisted = Arc::new(sync::watch::channel(s.disk.store_state()).0);
        s.persisted = Some(persisted.clone());
        let inc = s.inc;
        drop(s);
        Self {
            node,
            inc,
            genesis,
            store,
            persisted,
            hub,
            pregenesis: Default::default(),
            vouch_from: None,
        }
    }

    fn alive(&self, s: &NodeStore) -> bool {
        s.inc == self.inc && !s.dead
    }

    /// Handles the fault plan for a durable write. Returns Ok(true) if the write shall be applied
    /// and the call shall succeed, Ok(false) if it shall be applied but the node dies, Err otherwise.
    fn write_gate(&self, s: &mut NodeStore, what: &str) -> Result<bool, ctx::Error> {
        s.write_attempts += 1;
        let k = s.write_attempts;
        if let Some((at, f)) = s.fault_at {
            if at == k {
                s.fault_at = None;
                match f {
                    WriteFault::None => {}
                    WriteFault::Crash { applied } => {
                        self.hub.fault(&format!("crash_in_write_{}", if applied { "applied" } else { "lost" }));
                        self.hub.ev(format!(
                            "n{} crash inside durable write #{k} ({what}), applied={applied}",
                            self.node
                        ));
                        s.dead = true;
                        self.hub.note_crash(self.node);
                        if applied {
                            return Ok(false);
                        }
                        return Err(ctx::Canceled.into());
                    }
                    WriteFault::Error => {
                        self.hub.fault("disk_error");
                        self.hub
                            .ev(format!("n{} I/O error in durable write #{k} ({what})", self.node));
                        return Err(anyhow::anyhow!("simulated I/O error").into());
                    }
                }
            }
        }
        Ok(true)
    }
}

#[async_trait::async_trait]
impl EngineInterface for SimEngine {
    async fn genesis(&self, _ctx: &ctx::Ctx) -> ctx::Result<validator::Genesis> {
        Ok(self.genesis.clone())
    }

    async fn get_validator_schedule(
        &self,
        _ctx: &ctx::Ctx,
        _number: validator::BlockNumber,
    ) -> ctx::Result<(validator::Schedule, validator::BlockNumber)> {
        Ok((
            self.genesis.validators_schedule.clone().unwrap(),
            self.genesis.first_block,
        ))
    }

    async fn get_pending_validator_schedule(
        &self,
        _ctx: &ctx::Ctx,
        _number: validator::BlockNumber,
    ) -> ctx::Result<Option<(validator::Schedule, validator::BlockNumber)>> {
        Ok(None)
    }

    fn persisted(&self) -> sync::watch::Receiver<BlockStoreState> {
        self.persisted.subscribe()
    }

    async fn get_block(
        &self,
        _ctx: &ctx::Ctx,
        number: validator::BlockNumber,
    ) -> ctx::Result<validator::Block> {
        sched_point().await;
        let mut s = self.store.lock().unwrap();
        if !self.alive(&s) {
            return Err(ctx::Canceled.into());
        }
        s.get_block_calls += 1;
        if s.fail_get_block > 0 {
            s.fail_get_block -= 1;
            self.hub.fault("disk_error");
            return Err(anyhow::anyhow!("simulated read error").into());
        }
        let tamper = s.tamper_get_block > 0;
        match s.disk.block(number).cloned() {
            Some(mut b) if tamper => {
                s.tamper_get_block -= 1;
                self.hub.fault("tampered_block_served");
                match &mut b {
                    validator::Block::FinalV2(f) => f.payload.0.push(0x66),
                    validator::Block::PreGenesis(p) => p.payload.0.push(0x66),
                }
                Ok(b)
            }
            Some(b) => Ok(b),
            None => Err(anyhow::anyhow!("block {number} not found").into()),
        }
    }

    async fn queue_next_block(&self, _ctx: &ctx::Ctx, block: validator::Block) -> ctx::Result<()> {
        sched_point().await;
        let mut s = self.store.lock().unwrap();
        if !self.alive(&s) {
            return Err(ctx::Canceled.into());
        }
        let n = block.number();
        // Writes which a side channel has overtaken are moot.
        let next = s.disk.next();
        s.pending.retain(|b| b.number() >= next);
        let want = validator::BlockNumber(s.disk.next().0 + s.pending.len() as u64);
        self.hub.on_queue_next_block(self.node, self.inc, &block, want, &s);
        if n < want {
            // Already have it (e.g. the disk jumped ahead by a side channel). Ignored.
            return Ok(());
        }
        if n > want {
            return Err(anyhow::anyhow!("got block {n}, want {want}").into());
        }
        let apply = self.write_gate(&mut s, "queue_next_block")?;
        s.pending.push(block);
        if s.persist_now || !apply {
            while s.persist_one().is_some() {}
        }
        if !apply {
            return Err(ctx::Canceled.into());
        }
        Ok(())
    }

    async fn verify_pregenesis_block(
        &self,
        _ctx: &ctx::Ctx,
        block: &validator::PreGenesisBlock,
    ) -> ctx::Result<()> {
        sched_point().await;
        if self.pregenesis.get(&block.number.0) == Some(block)
            || self.vouch_from.is_some_and(|n| block.number.0 >= n)
        {
            Ok(())
        } else {
            Err(anyhow::anyhow!("invalid pre-genesis block").into())
        }
    }

    async fn verify_payload(
        &self,
        _ctx: &ctx::Ctx,
        number: validator::BlockNumber,
        payload: &validator::Payload,
    ) -> ctx::Result<()> {
        sched_point().await;
        let mut s = self.store.lock().unwrap();
        if !self.alive(&s) {
            return Err(ctx::Canceled.into());
        }
        self.hub.on_verify_payload(self.node, number, &s);
        // The execution layer is a deterministic function of (chain state, payload): every
        // correct node gives the same verdict.  Payloads starting with 0xBD are "invalid".
        if payload.0.first() == Some(&0xBD) {
            return Err(anyhow::anyhow!("invalid payload").into());
        }
        if s.reject_payloads > 0 {
            s.reject_payloads -= 1;
            self.hub.fault("payload_reject");
            return Err(anyhow::anyhow!("execution layer not ready").into());
        }
        Ok(())
    }

    async fn propose_payload(
        &self,
        _ctx: &ctx::Ctx,
        number: validator::BlockNumber,
    ) -> ctx::Result<validator::Payload> {
        sched_point().await;
        let mut s = self.store.lock().unwrap();
        if !self.alive(&s) {
            return Err(ctx::Canceled.into());
        }
        s.proposed += 1;
        // Unique, self-describing payload: (node, incarnation, counter, number).
        let mut p = vec![0x50u8, self.node as u8];
        p.extend_from_slice(&self.inc.to_le_bytes()[..2]);
        p.extend_from_slice(&(s.proposed as u32).to_le_bytes());
        p.extend_from_slice(&number.0.to_le_bytes());
        let pad = self.hub.payload_pad(self.node);
        p.resize(p.len() + pad, 0xAA);
        Ok(validator::Payload(p))
    }

    async fn get_state(&self, _ctx: &ctx::Ctx) -> ctx::Result<validator::ReplicaState> {
        sched_point().await;
        let s = self.store.lock().unwrap();
        if !self.alive(&s) {
            return Err(ctx::Canceled.into());
        }
        Ok(s.disk.replica_state())
    }

    async fn set_state(&self, _ctx: &ctx::Ctx, state: &validator::ReplicaState) -> ctx::Result<()> {
        // Scheduling point *before* the write: anything the caller did before calling us
        // (e.g. sending a message) becomes observable while the disk is still old.
        sched_point().await;
        let mut s = self.store.lock().unwrap();
        if !self.alive(&s) {
            return Err(ctx::Canceled.into());
        }
        if s.fail_set_state > 0 {
            s.fail_set_state -= 1;
            self.hub.fault("disk_error");
            self.hub.ev(format!("n{} set_state: I/O error (disk full)", self.node));
            return Err(anyhow::anyhow!("simulated I/O error: disk full").into());
        }
        let apply = self.write_gate(&mut s, "set_state");
        match apply {
            Err(e) => Err(e),
            Ok(ok) => {
                let bytes = zksync_protobuf::encode(state);
                self.hub.on_set_state(self.node, self.inc, state, &s);
                s.disk.state = Some(bytes);
                s.disk.writes += 1;
                if ok {
                    Ok(())
                } else {
                    Err(ctx::Canceled.into())
                }
            }
        }
    }

    async fn push_tx(&self, _ctx: &ctx::Ctx, _tx: Transaction) -> ctx::Result<bool> {
        self.store.lock().unwrap().push_tx_calls += 1;
        Ok(true)
    }
}
