//! Shared, Send+Sync state of one cluster run: event log, fault/probe counters, the global
//! oracles (ledger, vote history, write-ahead) and the list of violations.
use std::{
    collections::{BTreeMap, BTreeSet},
    sync::Mutex,
};

use rand::Rng;
use rand_chacha::ChaCha8Rng;
use zksync_consensus_roles::validator::{self, v2};

use super::engine::NodeStore;
use crate::kit::{Log, Violation};

/// Static description of the simulated committee.
#[derive(Debug, Clone)]
pub struct Committee {
    pub keys: Vec<validator::SecretKey>,
    pub pubkeys: Vec<validator::PublicKey>,
    pub weights: Vec<u64>,
    /// Validators played by the adversary.
    pub byz: Vec<bool>,
    pub genesis: validator::Genesis,
    pub schedule: validator::Schedule,
}

impl Committee {
    pub fn n(&self) -> usize {
        self.keys.len()
    }
    pub fn idx(&self, k: &validator::PublicKey) -> Option<usize> {
        self.pubkeys.iter().position(|x| x == k)
    }
    pub fn byz_weight(&self) -> u64 {
        (0..self.n()).filter(|i| self.byz[*i]).map(|i| self.weights[i]).sum()
    }
    pub fn correct(&self) -> impl Iterator<Item = usize> + '_ {
        (0..self.n()).filter(|i| !self.byz[*i])
    }
}

/// Per correct validator: everything it ever signed (over all incarnations) and handed over.
#[derive(Debug, Default)]
pub struct NodeMon {
    /// Commit votes signed, by view.
    pub commit_votes: BTreeMap<u64, v2::ReplicaCommit>,
    /// Highest view for which a timeout vote was signed.
    pub max_timeout_view: Option<u64>,
    /// Highest view of any commit/timeout/new-view message signed.
    pub max_signed_view: Option<u64>,
    /// Blocks handed to the execution layer: number -> payload hash.
    pub handed: BTreeMap<u64, validator::PayloadHash>,
    pub crashes: u64,
}

pub struct HubInner {
    pub log: Log,
    pub violations: Vec<Violation>,
    pub faults: BTreeMap<String, u64>,
    pub probes: BTreeMap<String, u64>,
    /// First block committed anywhere, per number.
    pub ledger: BTreeMap<u64, validator::Block>,
    /// Every (number -> hash) carried by a commit certificate seen in a correct node's message or
    /// store.
    pub certified: BTreeMap<u64, (validator::PayloadHash, u64)>,
    pub mons: Vec<NodeMon>,
    /// Nodes which crashed inside a durable write and wait for the director to notice.
    pub crashed: Vec<usize>,
    pub pad_rng: ChaCha8Rng,
    pub max_pad: usize,
    /// Distinct abstract states seen.
    pub abstract_states: BTreeSet<u64>,
    /// The run stops at the first violation of this property (any property if None).
    pub focus: Option<String>,
}

impl std::fmt::Debug for Hub {
    fn fmt(&self, f: &mut std::fmt::Formatter<'_>) -> std::fmt::Result {
        f.write_str("Hub")
    }
}

pub struct Hub {
    pub committee: Committee,
    pub inner: Mutex<HubInner>,
}

impl Hub {
    pub fn new(committee: Committee, pad_rng: ChaCha8Rng, max_pad: usize, keep_log: bool) -> Self {
        let n = committee.n();
        Self {
            committee,
            inner: Mutex::new(HubInner {
                log: Log::new(keep_log),
                violations: vec![],
                faults: BTreeMap::new(),
                probes: BTreeMap::new(),
                ledger: BTreeMap::new(),
                certified: BTreeMap::new(),
                mons: (0..n).map(|_| NodeMon::default()).collect(),
                crashed: vec![],
                pad_rng,
                max_pad,
                abstract_states: BTreeSet::new(),
                focus: None,
            }),
        }
    }

    pub fn ev(&self, line: String) -> u64 {
        self.inner.lock().unwrap().log.ev(line)
    }
    pub fn fault(&self, kind: &str) {
        *self.inner.lock().unwrap().faults.entry(kind.to_string()).or_default() += 1;
    }
    pub fn probe(&self, name: &str) {
        *self.inner.lock().unwrap().probes.entry(name.to_string()).or_default() += 1;
    }
    pub fn note_crash(&self, node: usize) {
        let mut i = self.inner.lock().unwrap();
        i.crashed.push(node);
        i.mons[node].crashes += 1;
    }
    pub fn payload_pad(&self, _node: usize) -> usize {
        let mut i = self.inner.lock().unwrap();
        let m = i.max_pad;
        if m == 0 {
            0
        } else {
            i.pad_rng.gen_range(0..=m)
        }
    }
    pub fn violation(&self, property: &str, class: &str, detail: String) {
        let mut i = self.inner.lock().unwrap();
        let event = i.log.ev(format!("VIOLATION {property} {class}: {detail}"));
        i.violations.push(Violation {
            property: property.to_string(),
            class: class.to_string(),
            detail,
            event,
        });
    }
    pub fn has_violation(&self) -> bool {
        let i = self.inner.lock().unwrap();
        match &i.focus {
            None => !i.violations.is_empty(),
            Some(f) => i.violations.iter().any(|v| &v.property == f),
        }
    }

    fn is_correct(&self, node: usize) -> bool {
        !self.committee.byz[node]
    }

    /// A commit certificate has been seen in a place where only genuine certificates may
    /// appear (a correct node's message or store).  C02(c) / C01.
    pub fn on_certificate(&self, qc: &v2::CommitQC, wher: &str) {
        let n = qc.header().number.0;
        let h = qc.header().payload;
        let conflict = {
            let mut i = self.inner.lock().unwrap();
            match i.certified.get(&n) {
                Some((h0, v0)) if *h0 != h => Some((*h0, *v0)),
                Some(_) => None,
                None => {
                    i.certified.insert(n, (h, qc.view().number.0));
                    None
                }
            }
        };
        if let Some((h0, v0)) = conflict {
            self.violation(
                "C02",
                "two_certified_blocks",
                format!(
                    "block {n}: certificate for {h:?} (view {}) seen {wher}, but {h0:?} (view {v0}) was certified before",
                    qc.view().number.0
                ),
            );
        }
    }

    /// The engine manager of a correct node hands a block to the execution layer.
    pub fn on_queue_next_block(
        &self,
        node: usize,
        inc: u64,
        block: &validator::Block,
        want: validator::BlockNumber,
        store: &NodeStore,
    ) {
        let n = block.number().0;
        let h = block.payload().hash();
        self.ev(format!(
            "n{node}.{inc} queue_next_block #{n} {} (want {})",
            short(&h),
            want.0
        ));
        if !self.is_correct(node) {
            return;
        }
        if let validator::Block::FinalV2(b) = block {
            self.on_certificate(&b.justification, &format!("in block stored by n{node}"));
        }
        if block.number() > want {
            self.violation(
                "C08",
                "gap_in_persisted_chain",
                format!("n{node} hands block {n} to the execution layer, expected {}", want.0),
            );
        }
        let mut conflict = None;
        let mut replaced = None;
        {
            let mut i = self.inner.lock().unwrap();
            match i.ledger.get(&n) {
                Some(b0) if b0.payload().hash() != h => conflict = Some(b0.payload().hash()),
                Some(_) => {}
                None => {
                    i.ledger.insert(n, block.clone());
                }
            }
            match i.mons[node].handed.get(&n) {
                Some(h0) if *h0 != h => replaced = Some(*h0),
                Some(_) => {}
                None => {
                    i.mons[node].handed.insert(n, h);
                }
            }
        }
        if let Some(h0) = conflict {
            self.violation(
                "C01",
                "conflicting_commit",
                format!("n{node} commits block {n} = {h:?}, another correct node committed {h0:?}"),
            );
        }
        if let Some(h0) = replaced {
            self.violation(
                "C01",
                "replaced_block",
                format!("n{node} commits block {n} = {h:?}, it had committed {h0:?} before"),
            );
        }
        // The durable chain itself: a block below `next` must equal what is on the disk.
        if let Some(b0) = store.disk.block(block.number()) {
            if b0.payload().hash() != h {
                self.violation(
                    "C01",
                    "replaced_durable_block",
                    format!("n{node} block {n}: disk has {:?}, node hands over {h:?}", b0.payload().hash()),
                );
            }
        }
    }

    pub fn on_verify_payload(&self, _node: usize, _number: validator::BlockNumber, _s: &NodeStore) {}

    pub fn on_set_state(
        &self,
        node: usize,
        inc: u64,
        state: &validator::ReplicaState,
        store: &NodeStore,
    ) {
        let validator::ReplicaState::V2(new) = state;
        let old = store.disk.replica_state();
        let validator::ReplicaState::V2(old) = old;
        self.ev(format!(
            "n{node}.{inc} set_state view={} phase={:?} hv={} hcq={} htq={} props={}",
            new.view_number.0,
            new.phase,
            new.high_vote.as_ref().map(|v| v.view.number.0 as i64).unwrap_or(-1),
            new.high_commit_qc.as_ref().map(|v| v.view().number.0 as i64).unwrap_or(-1),
            new.high_timeout_qc.as_ref().map(|v| v.view.number.0 as i64).unwrap_or(-1),
            new.proposals.len(),
        ));
        if !self.is_correct(node) {
            return;
        }
        // C05 oracle 1 on the durable state: view and certificate views never decrease.
        if store.disk.state.is_some() {
            if new.view_number < old.view_number {
                self.violation(
                    "C05",
                    "durable_view_decreased",
                    format!("n{node}: durable view {} -> {}", old.view_number.0, new.view_number.0),
                );
            }
            let cv = |s: &v2::ChonkyV2State| s.high_commit_qc.as_ref().map(|q| q.view().number.0);
            let tv = |s: &v2::ChonkyV2State| s.high_timeout_qc.as_ref().map(|q| q.view.number.0);
            if cv(new) < cv(&old) {
                self.violation(
                    "C05",
                    "durable_high_commit_qc_decreased",
                    format!("n{node}: {:?} -> {:?}", cv(&old), cv(new)),
                );
            }
            if tv(new) < tv(&old) {
                self.violation(
                    "C05",
                    "durable_high_timeout_qc_decreased",
                    format!("n{node}: {:?} -> {:?}", tv(&old), tv(new)),
                );
            }
        }
        if let Some(qc) = &new.high_commit_qc {
            self.on_certificate(qc, &format!("in durable state of n{node}"));
        }
    }

    /// A message signed by correct validator `node` appeared on its outbound channel.
    /// `durable` is the node's durable replica state at this very instant.
    pub fn on_outbound(
        &self,
        node: usize,
        inc: u64,
        msg: &validator::Signed<validator::ConsensusMsg>,
        durable: &v2::ChonkyV2State,
    ) {
        let validator::ConsensusMsg::V2(m) = &msg.msg;
        let view = m.view_number().0;
        match m {
            v2::ChonkyMsg::ReplicaCommit(c) => {
                // Oracle A.
                let (prev, tmo, maxv) = {
                    let i = self.inner.lock().unwrap();
                    let mon = &i.mons[node];
                    (
                        mon.commit_votes.get(&view).cloned(),
                        mon.max_timeout_view,
                        mon.max_signed_view,
                    )
                };
                if let Some(p) = prev {
                    if &p != c {
                        self.violation(
                            "C03",
                            "double_commit_vote",
                            format!(
                                "n{node}.{inc} signs commit vote for view {view} block {}/{:?}; it signed {}/{:?} in the same view before",
                                c.proposal.number.0, c.proposal.payload, p.proposal.number.0, p.proposal.payload
                            ),
                        );
                    }
                }
                if tmo.is_some_and(|t| t >= view) {
                    self.violation(
                        "C03",
                        "commit_vote_after_timeout",
                        format!(
                            "n{node}.{inc} signs commit vote for view {view} after a timeout vote for view {}",
                            tmo.unwrap()
                        ),
                    );
                }
                if maxv.is_some_and(|t| t > view) {
                    self.violation(
                        "C03",
                        "signed_view_decreased",
                        format!("n{node}.{inc} signs commit vote for view {view} after signing for view {}", maxv.unwrap()),
                    );
                }
                // Oracle B (write-ahead).
                let ok = match &durable.high_vote {
                    Some(hv) => {
                        hv.view.number.0 > view || (hv.view.number.0 == view && hv == c)
                    }
                    None => false,
                };
                if !ok {
                    self.violation(
                        "C03",
                        "commit_vote_not_durable",
                        format!(
                            "n{node}.{inc} sends commit vote for view {view} but durable high_vote is {:?}",
                            durable.high_vote.as_ref().map(|v| (v.view.number.0, v.proposal.number.0))
                        ),
                    );
                }
                let mut i = self.inner.lock().unwrap();
                let mon = &mut i.mons[node];
                mon.commit_votes.entry(view).or_insert_with(|| c.clone());
                mon.max_signed_view = mon.max_signed_view.max(Some(view));
            }
            v2::ChonkyMsg::ReplicaTimeout(t) => {
                let maxv = self.inner.lock().unwrap().mons[node].max_signed_view;
                if maxv.is_some_and(|x| x > view) {
                    self.violation(
                        "C03",
                        "signed_view_decreased",
                        format!("n{node}.{inc} signs timeout vote for view {view} after signing for view {}", maxv.unwrap()),
                    );
                }
                let ok = durable.view_number.0 > view
                    || (durable.view_number.0 == view && durable.phase == v2::Phase::Timeout);
                if !ok {
                    self.violation(
                        "C03",
                        "timeout_vote_not_durable",
                        format!(
                            "n{node}.{inc} sends timeout vote for view {view} but durable (view,phase) = ({},{:?})",
                            durable.view_number.0, durable.phase
                        ),
                    );
                }
                if let Some(qc) = &t.high_qc {
                    self.on_certificate(qc, &format!("in timeout vote of n{node}"));
                }
                let mut i = self.inner.lock().unwrap();
                let mon = &mut i.mons[node];
                mon.max_timeout_view = mon.max_timeout_view.max(Some(view));
                mon.max_signed_view = mon.max_signed_view.max(Some(view));
            }
            v2::ChonkyMsg::ReplicaNewView(nv) => {
                let maxv = self.inner.lock().unwrap().mons[node].max_signed_view;
                if maxv.is_some_and(|x| x > view) {
                    self.violation(
                        "C03",
                        "signed_view_decreased",
                        format!("n{node}.{inc} signs new-view for view {view} after signing for view {}", maxv.unwrap()),
                    );
                }
                if durable.view_number.0 < view {
                    self.violation(
                        "C03",
                        "new_view_not_durable",
                        format!(
                            "n{node}.{inc} sends new-view for view {view} but durable view is {}",
                            durable.view_number.0
                        ),
                    );
                }
                self.on_justification(&nv.justification, &format!("in new-view of n{node}"));
                let mut i = self.inner.lock().unwrap();
                let mon = &mut i.mons[node];
                mon.max_signed_view = mon.max_signed_view.max(Some(view));
            }
            v2::ChonkyMsg::LeaderProposal(p) => {
                self.on_justification(&p.justification, &format!("in proposal of n{node}"));
            }
        }
    }

    pub fn on_justification(&self, j: &v2::ProposalJustification, wher: &str) {
        match j {
            v2::ProposalJustification::Commit(qc) => self.on_certificate(qc, wher),
            v2::ProposalJustification::Timeout(tqc) => {
                if let Some(qc) = tqc.high_qc() {
                    self.on_certificate(qc, wher);
                }
            }
        }
    }
}

pub fn short(h: &validator::PayloadHash) -> String {
    let s = format!("{h:?}");
    s.rsplit(':').next().unwrap_or("")[..8].to_string()
}

pub fn describe(msg: &validator::Signed<validator::ConsensusMsg>) -> String {
    let validator::ConsensusMsg::V2(m) = &msg.msg;
    match m {
        v2::ChonkyMsg::LeaderProposal(p) => format!(
            "Proposal(v{} {} payload={})",
            p.view().number.0,
            match &p.justification {
                v2::ProposalJustification::Commit(_) => "jc",
                v2::ProposalJustification::Timeout(_) => "jt",
            },
            p.proposal_payload.as_ref().map(|x| short(&x.hash())).unwrap_or("-".into())
        ),
        v2::ChonkyMsg::ReplicaCommit(c) => format!(
            "Commit(v{} #{} {})",
            c.view.number.0,
            c.proposal.number.0,
            short(&c.proposal.payload)
        ),
        v2::ChonkyMsg::ReplicaTimeout(t) => format!(
            "Timeout(v{} hv={} hq={})",
            t.view.number.0,
            t.high_vote.as_ref().map(|v| format!("v{}#{}", v.view.number.0, v.proposal.number.0)).unwrap_or("-".into()),
            t.high_qc.as_ref().map(|v| format!("v{}#{}", v.view().number.0, v.header().number.0)).unwrap_or("-".into()),
        ),
        v2::ChonkyMsg::ReplicaNewView(n) => format!(
            "NewView(v{} {})",
            n.view().number.0,
            match &n.justification {
                v2::ProposalJustification::Commit(_) => "jc",
                v2::ProposalJustification::Timeout(_) => "jt",
            }
        ),
    }
}
