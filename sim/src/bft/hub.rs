//! Shared, Send+Sync state of one cluster run: event log, fault/probe counters, the global
//! oracles (ledger, vote history, write-ahead) and the list of violations.
use std::{
    collections::{BTreeMap, BTreeSet},
    sync::Mutex,
};

use rand::Rng;
use crate::kit::SimRng as ChaCha8Rng;
use zksync_consensus_roles::validator::{self, v2};

use super::engine::NodeStore;
use crate::kit::{Log, Violation};

/// Static description of the simulated committee.
#[derive(Debug, Clone)]
pub struct Committee {
    pub keys: Vec<validator::SecretKey>,
    pub pubkeys: Vec<validator::PublicKey>,
    pub weights: Vec<u64>,
    /// Validators played by the adversary.
    pub byz: Vec<bool>,
    pub genesis: validator::Genesis,
    pub schedule: validator::Schedule,
}

impl Committee {
    pub fn n(&self) -> usize {
        self.keys.len()
    }
    pub fn idx(&self, k: &validator::PublicKey) -> Option<usize> {
        self.pubkeys.iter().position(|x| x == k)
    }
    pub fn byz_weight(&self) -> u64 {
        (0..self.n()).filter(|i| self.byz[*i]).map(|i| self.weights[i]).sum()
    }
    pub fn correct(&self) -> impl Iterator<Item = usize> + '_ {
        (0..self.n()).filter(|i| !self.byz[*i])
    }
}

/// Per correct validator: everything it ever signed (over all incarnations) and handed over.
#[derive(Default)]
pub struct NodeMon {
    /// Commit votes signed, by view.
    pub commit_votes: BTreeMap<u64, v2::ReplicaCommit>,
    /// Highest view for which a timeout vote was signed.
    pub max_timeout_view: Option<u64>,
    /// Highest view of any commit/timeout/new-view message signed.
    pub max_signed_view: Option<u64>,
    /// Blocks handed to the execution layer: number -> payload hash.
    pub handed: BTreeMap<u64, validator::PayloadHash>,
    pub crashes: u64,
    /// Timeout votes signed, by view (a validator may re-sign with a newer high certificate).
    pub timeout_votes: BTreeMap<u64, Vec<v2::ReplicaTimeout>>,
    /// Last snapshot of the live incarnation: (incarnation, view, hc view, ht view).
    pub last_snap: Option<(u64, u64, Option<u64>, Option<u64>)>,
    /// Reference replica of the live incarnation (C05 oracle 4).
    pub model: Option<(u64, super::refmodel::RefReplica)>,
}

pub struct HubInner {
    pub log: Log,
    pub violations: Vec<Violation>,
    pub faults: BTreeMap<String, u64>,
    pub probes: BTreeMap<String, u64>,
    /// First block committed anywhere, per number.
    pub ledger: BTreeMap<u64, validator::Block>,
    /// Every (number -> hash) carried by a commit certificate seen in a correct node's message or
    /// store.
    pub certified: BTreeMap<u64, (validator::PayloadHash, u64)>,
    pub mons: Vec<NodeMon>,
    /// Nodes which crashed inside a durable write and wait for the director to notice.
    pub crashed: Vec<usize>,
    pub pad_rng: ChaCha8Rng,
    pub max_pad: usize,
    /// Distinct abstract states seen.
    pub abstract_states: BTreeSet<u64>,
    /// Certificates already judged genuine (by content hash).
    pub genuine: BTreeSet<u64>,
    /// C02: weight of correct commit voters per (view, number, hash).
    pub vote_weight: BTreeMap<(u64, u64, validator::PayloadHash), u64>,
    /// C02: blocks which the adversary could have certified: number -> (hash, first view).
    pub potential: BTreeMap<u64, (validator::PayloadHash, u64)>,
    /// The run stops at the first violation of this property (any property if None).
    pub focus: Option<String>,
}

impl std::fmt::Debug for Hub {
    fn fmt(&self, f: &mut std::fmt::Formatter<'_>) -> std::fmt::Result {
        f.write_str("Hub")
    }
}

pub struct Hub {
    pub committee: Committee,
    pub inner: Mutex<HubInner>,
    /// Receives every event line as well (used by engines which keep their own log).
    pub mirror: Mutex<Option<Box<dyn Fn(String) + Send + Sync>>>,
}

impl Hub {
    pub fn new(committee: Committee, pad_rng: ChaCha8Rng, max_pad: usize, keep_log: bool) -> Self {
        let n = committee.n();
        Self {
            committee,
            inner: Mutex::new(HubInner {
                log: Log::new(keep_log),
                violations: vec![],
                faults: BTreeMap::new(),
                probes: BTreeMap::new(),
                ledger: BTreeMap::new(),
                certified: BTreeMap::new(),
                mons: (0..n).map(|_| NodeMon::default()).collect(),
                crashed: vec![],
                pad_rng,
                max_pad,
                abstract_states: BTreeSet::new(),
                genuine: BTreeSet::new(),
                vote_weight: BTreeMap::new(),
                potential: BTreeMap::new(),
                focus: None,
            }),
            mirror: Mutex::new(None),
        }
    }

    pub fn ev(&self, line: String) -> u64 {
        if let Some(m) = &*self.mirror.lock().unwrap() {
            m(line.clone());
        }
        self.inner.lock().unwrap().log.ev(line)
    }
    pub fn fault(&self, kind: &str) {
        *self.inner.lock().unwrap().faults.entry(kind.to_string()).or_default() += 1;
    }
    pub fn probe(&self, name: &str) {
        *self.inner.lock().unwrap().probes.entry(name.to_string()).or_default() += 1;
    }
    pub fn note_crash(&self, node: usize) {
        let mut i = self.inner.lock().unwrap();
        i.crashed.push(node);
        i.mons[node].crashes += 1;
    }
    pub fn payload_pad(&self, _node: usize) -> usize {
        let mut i = self.inner.lock().unwrap();
        let m = i.max_pad;
        if m == 0 {
            0
        } else {
            i.pad_rng.gen_range(0..=m)
        }
    }
    pub fn violation(&self, property: &str, class: &str, detail: String) {
        let mut i = self.inner.lock().unwrap();
        let event = i.log.ev(format!("VIOLATION {property} {class}: {detail}"));
        i.violations.push(Violation {
            property: property.to_string(),
            class: class.to_string(),
            detail,
            event,
        });
    }
    pub fn has_violation(&self) -> bool {
        let i = self.inner.lock().unwrap();
        match &i.focus {
            None => !i.violations.is_empty(),
            Some(f) => i.violations.iter().any(|v| &v.property == f),
        }
    }

    fn is_correct(&self, node: usize) -> bool {
        !self.committee.byz[node]
    }

    /// A commit certificate has been seen in a place where only genuine certificates may
    /// appear (a correct node's message or store).  C02(c) / C01.
    pub fn on_certificate(&self, qc: &v2::CommitQC, wher: &str) {
        let n = qc.header().number.0;
        let h = qc.header().payload;
        let conflict = {
            let mut i = self.inner.lock().unwrap();
            match i.certified.get(&n) {
                Some((h0, v0)) if *h0 != h => Some((*h0, *v0)),
                Some(_) => None,
                None => {
                    i.certified.insert(n, (h, qc.view().number.0));
                    None
                }
            }
        };
        if let Some((h0, v0)) = conflict {
            self.violation(
                "C02",
                "two_certified_blocks",
                format!(
                    "block {n}: certificate for {h:?} (view {}) seen {wher}, but {h0:?} (view {v0}) was certified before",
                    qc.view().number.0
                ),
            );
        }
    }

    /// The engine manager of a correct node hands a block to the execution layer.
    pub fn on_queue_next_block(
        &self,
        node: usize,
        inc: u64,
        block: &validator::Block,
        want: validator::BlockNumber,
        store: &NodeStore,
    ) {
        let n = block.number().0;
        let h = block.payload().hash();
        self.ev(format!(
            "n{node}.{inc} queue_next_block #{n} {} (want {})",
            short(&h),
            want.0
        ));
        if !self.is_correct(node) {
            return;
        }
        if let validator::Block::FinalV2(b) = block {
            self.on_certificate(&b.justification, &format!("in block stored by n{node}"));
        }
        if block.number() > want {
            self.violation(
                "C08",
                "gap_in_persisted_chain",
                format!("n{node} hands block {n} to the execution layer, expected {}", want.0),
            );
        }
        let mut conflict = None;
        let mut replaced = None;
        {
            let mut i = self.inner.lock().unwrap();
            match i.ledger.get(&n) {
                Some(b0) if b0.payload().hash() != h => conflict = Some(b0.payload().hash()),
                Some(_) => {}
                None => {
                    i.ledger.insert(n, block.clone());
                }
            }
            match i.mons[node].handed.get(&n) {
                Some(h0) if *h0 != h => replaced = Some(*h0),
                Some(_) => {}
                None => {
                    i.mons[node].handed.insert(n, h);
                }
            }
        }
        if let Some(h0) = conflict {
            self.violation(
                "C01",
                "conflicting_commit",
                format!("n{node} commits block {n} = {h:?}, another correct node committed {h0:?}"),
            );
        }
        if let Some(h0) = replaced {
            self.violation(
                "C01",
                "replaced_block",
                format!("n{node} commits block {n} = {h:?}, it had committed {h0:?} before"),
            );
        }
        // The durable chain itself: a block below `next` must equal what is on the disk.
        if let Some(b0) = store.disk.block(block.number()) {
            if b0.payload().hash() != h {
                self.violation(
                    "C01",
                    "replaced_durable_block",
                    format!("n{node} block {n}: disk has {:?}, node hands over {h:?}", b0.payload().hash()),
                );
            }
        }
    }

    pub fn on_verify_payload(&self, _node: usize, _number: validator::BlockNumber, _s: &NodeStore) {}

    pub fn on_set_state(
        &self,
        node: usize,
        inc: u64,
        state: &validator::ReplicaState,
        store: &NodeStore,
    ) {
        let validator::ReplicaState::V2(new) = state;
        let old = store.disk.replica_state();
        let validator::ReplicaState::V2(old) = old;
        self.ev(format!(
            "n{node}.{inc} set_state view={} phase={:?} hv={} hcq={} htq={} props={}",
            new.view_number.0,
            new.phase,
            new.high_vote.as_ref().map(|v| v.view.number.0 as i64).unwrap_or(-1),
            new.high_commit_qc.as_ref().map(|v| v.view().number.0 as i64).unwrap_or(-1),
            new.high_timeout_qc.as_ref().map(|v| v.view.number.0 as i64).unwrap_or(-1),
            new.proposals.len(),
        ));
        if !self.is_correct(node) {
            return;
        }
        // C05 oracle 1 on the durable state: view and certificate views never decrease.
        if store.disk.state.is_some() {
            if new.view_number < old.view_number {
                self.violation(
                    "C05",
                    "durable_view_decreased",
                    format!("n{node}: durable view {} -> {}", old.view_number.0, new.view_number.0),
                );
            }
            let cv = |s: &v2::ChonkyV2State| s.high_commit_qc.as_ref().map(|q| q.view().number.0);
            let tv = |s: &v2::ChonkyV2State| s.high_timeout_qc.as_ref().map(|q| q.view.number.0);
            if cv(new) < cv(&old) {
                self.violation(
                    "C05",
                    "durable_high_commit_qc_decreased",
                    format!("n{node}: {:?} -> {:?}", cv(&old), cv(new)),
                );
            }
            if tv(new) < tv(&old) {
                self.violation(
                    "C05",
                    "durable_high_timeout_qc_decreased",
                    format!("n{node}: {:?} -> {:?}", tv(&old), tv(new)),
                );
            }
        }
        if let Some(qc) = &new.high_commit_qc {
            self.on_certificate(qc, &format!("in durable state of n{node}"));
        }
    }

    /// A message signed by correct validator `node` appeared on its outbound channel.
    /// `durable` is the node's durable replica state at this very instant.
    pub fn on_outbound(
        &self,
        node: usize,
        inc: u64,
        msg: &validator::Signed<validator::ConsensusMsg>,
        durable: &v2::ChonkyV2State,
    ) {
        let validator::ConsensusMsg::V2(m) = &msg.msg;
        let view = m.view_number().0;
        match m {
            v2::ChonkyMsg::ReplicaCommit(c) => {
                // Oracle A.
                let (prev, tmo, maxv) = {
                    let i = self.inner.lock().unwrap();
                    let mon = &i.mons[node];
                    (
                        mon.commit_votes.get(&view).cloned(),
                        mon.max_timeout_view,
                        mon.max_signed_view,
                    )
                };
                if let Some(p) = prev {
                    if &p != c {
                        self.violation(
                            "C03",
                            "double_commit_vote",
                            format!(
                                "n{node}.{inc} signs commit vote for view {view} block {}/{:?}; it signed {}/{:?} in the same view before",
                                c.proposal.number.0, c.proposal.payload, p.proposal.number.0, p.proposal.payload
                            ),
                        );
                    }
                }
                if tmo.is_some_and(|t| t >= view) {
                    self.violation(
                        "C03",
                        "commit_vote_after_timeout",
                        format!(
                            "n{node}.{inc} signs commit vote for view {view} after a timeout vote for view {}",
                            tmo.unwrap()
                        ),
                    );
                }
                if maxv.is_some_and(|t| t > view) {
                    self.violation(
                        "C03",
                        "signed_view_decreased",
                        format!("n{node}.{inc} signs commit vote for view {view} after signing for view {}", maxv.unwrap()),
                    );
                }
                // Oracle B (write-ahead).
                let ok = match &durable.high_vote {
                    Some(hv) => {
                        hv.view.number.0 > view || (hv.view.number.0 == view && hv == c)
                    }
                    None => false,
                };
                if !ok {
                    self.violation(
                        "C03",
                        "commit_vote_not_durable",
                        format!(
                            "n{node}.{inc} sends commit vote for view {view} but durable high_vote is {:?}",
                            durable.high_vote.as_ref().map(|v| (v.view.number.0, v.proposal.number.0))
                        ),
                    );
                }
                self.c02_on_correct_vote(node, c);
                let mut i = self.inner.lock().unwrap();
                let mon = &mut i.mons[node];
                mon.commit_votes.entry(view).or_insert_with(|| c.clone());
                mon.max_signed_view = mon.max_signed_view.max(Some(view));
            }
            v2::ChonkyMsg::ReplicaTimeout(t) => {
                let maxv = self.inner.lock().unwrap().mons[node].max_signed_view;
                if maxv.is_some_and(|x| x > view) {
                    self.violation(
                        "C03",
                        "signed_view_decreased",
                        format!("n{node}.{inc} signs timeout vote for view {view} after signing for view {}", maxv.unwrap()),
                    );
                }
                let ok = durable.view_number.0 > view
                    || (durable.view_number.0 == view && durable.phase == v2::Phase::Timeout);
                if !ok {
                    self.violation(
                        "C03",
                        "timeout_vote_not_durable",
                        format!(
                            "n{node}.{inc} sends timeout vote for view {view} but durable (view,phase) = ({},{:?})",
                            durable.view_number.0, durable.phase
                        ),
                    );
                }
                if let Some(qc) = &t.high_qc {
                    self.on_certificate(qc, &format!("in timeout vote of n{node}"));
                }
                let mut i = self.inner.lock().unwrap();
                let mon = &mut i.mons[node];
                let e = mon.timeout_votes.entry(view).or_default();
                if !e.contains(t) {
                    e.push(t.clone());
                }
                mon.max_timeout_view = mon.max_timeout_view.max(Some(view));
                mon.max_signed_view = mon.max_signed_view.max(Some(view));
            }
            v2::ChonkyMsg::ReplicaNewView(nv) => {
                // A new-view is not a vote: it relays the highest certificate the replica holds,
                // and its view (certificate view + 1) may be ahead of the replica's own view when
                // a Byzantine timeout vote carried a certificate newer than the view it timed out
                // in (the replica adopts the certificate without moving).  What must be durable
                // before it leaves is the state that records it: the certificate.
                let covered = match &nv.justification {
                    v2::ProposalJustification::Commit(q) => durable.high_commit_qc.as_ref().is_some_and(|d| d.view().number >= q.view().number),
                    v2::ProposalJustification::Timeout(q) => durable.high_timeout_qc.as_ref().is_some_and(|d| d.view.number >= q.view.number),
                };
                if !covered {
                    self.violation(
                        "C03",
                        "new_view_not_durable",
                        format!(
                            "n{node}.{inc} sends {} but the durable state (view {}, hc {:?}, ht {:?}) does not hold that certificate",
                            describe(msg),
                            durable.view_number.0,
                            durable.high_commit_qc.as_ref().map(|q| q.view().number.0),
                            durable.high_timeout_qc.as_ref().map(|q| q.view.number.0),
                        ),
                    );
                }
                let _ = view;
                self.on_justification(&nv.justification, &format!("in new-view of n{node}"));
            }
            v2::ChonkyMsg::LeaderProposal(p) => {
                self.on_justification(&p.justification, &format!("in proposal of n{node}"));
            }
        }
    }

    /// C02 (history level).  A block is *potentially certified* at view v as soon as the correct
    /// validators which voted for it in v, together with the entire Byzantine weight, reach the
    /// quorum - whether or not anybody assembled the certificate.
    fn c02_on_correct_vote(&self, node: usize, c: &v2::ReplicaCommit) {
        let view = c.view.number.0;
        let n = c.proposal.number.0;
        let h = c.proposal.payload;
        let quorum = self.committee.schedule.quorum_threshold();
        let byz = self.committee.byz_weight();
        let mut bad: Vec<(&str, String)> = vec![];
        {
            let mut i = self.inner.lock().unwrap();
            if i.mons[node].commit_votes.contains_key(&view) {
                return; // counted already (or an equivocation, reported by C03)
            }
            // (b) after (n0,h0) became potentially certified at v0, no correct validator votes in a
            //     later view for another hash of n0 or for a smaller number.
            for (n0, (h0, v0)) in &i.potential {
                if view > *v0 {
                    if n == *n0 && h != *h0 {
                        bad.push((
                            "vote_against_certified_block",
                            format!("n{node} votes in view {view} for block {n}/{h:?}, but {h0:?} was potentially certified in view {v0}"),
                        ));
                    }
                    if n < *n0 {
                        bad.push((
                            "vote_below_certified_block",
                            format!("n{node} votes in view {view} for block {n}, but block {n0} was potentially certified in view {v0}"),
                        ));
                    }
                }
            }
            let w = i.vote_weight.entry((view, n, h)).or_default();
            *w += self.committee.weights[node];
            if *w + byz >= quorum {
                match i.potential.get(&n) {
                    Some((h0, v0)) if *h0 != h => bad.push((
                        "two_potentially_certified_blocks",
                        format!("block {n}: {h:?} can be certified in view {view}, {h0:?} could be certified in view {v0}"),
                    )),
                    Some(_) => {}
                    None => {
                        i.potential.insert(n, (h, view));
                    }
                }
            }
        }
        for (class, detail) in bad {
            self.violation("C02", class, detail);
        }
    }

    /// Judges a commit certificate against the signing history of this run, not by the repo's
    /// own `verify`: every claimed correct signer really signed exactly this vote, the signer set
    /// has the committee's length and its weight reaches the quorum.
    pub fn commit_qc_genuine(&self, qc: &v2::CommitQC) -> Result<(), String> {
        let c = &self.committee;
        if qc.signers.len() != c.n() {
            return Err(format!("signer set of length {} for a committee of {}", qc.signers.len(), c.n()));
        }
        if qc.message.view.genesis != c.genesis.hash() || qc.message.view.epoch.0 != 0 {
            return Err("certificate for another chain or epoch".into());
        }
        let i = self.inner.lock().unwrap();
        let mut weight = 0;
        for (k, v) in c.schedule.iter().enumerate() {
            if !qc.signers.0[k] {
                continue;
            }
            let idx = c.idx(&v.key).unwrap();
            weight += v.weight;
            if !c.byz[idx] && i.mons[idx].commit_votes.get(&qc.message.view.number.0) != Some(&qc.message) {
                return Err(format!(
                    "claims the signature of correct validator n{idx} which never signed this vote (view {}, block {})",
                    qc.message.view.number.0, qc.message.proposal.number.0
                ));
            }
        }
        if weight < c.schedule.quorum_threshold() {
            return Err(format!("weight {weight} below the quorum {}", c.schedule.quorum_threshold()));
        }
        Ok(())
    }

    pub fn timeout_qc_genuine(&self, qc: &v2::TimeoutQC) -> Result<(), String> {
        let c = &self.committee;
        if qc.view.genesis != c.genesis.hash() || qc.view.epoch.0 != 0 {
            return Err("certificate for another chain or epoch".into());
        }
        let mut seen = vec![false; c.n()];
        let mut weight = 0;
        for (msg, signers) in &qc.map {
            if signers.len() != c.n() {
                return Err("signer set of wrong length".into());
            }
            if msg.view != qc.view {
                return Err("vote for another view inside the certificate".into());
            }
            if let Some(hq) = &msg.high_qc {
                self.commit_qc_genuine(hq).map_err(|e| format!("high certificate inside: {e}"))?;
            }
            let i = self.inner.lock().unwrap();
            for (k, v) in c.schedule.iter().enumerate() {
                if !signers.0[k] {
                    continue;
                }
                if seen[k] {
                    return Err(format!("validator {k} counted twice"));
                }
                seen[k] = true;
                weight += v.weight;
                let idx = c.idx(&v.key).unwrap();
                if !c.byz[idx]
                    && !i.mons[idx]
                        .timeout_votes
                        .get(&qc.view.number.0)
                        .is_some_and(|l| l.contains(msg))
                {
                    return Err(format!(
                        "claims the signature of correct validator n{idx} which never signed this timeout vote (view {})",
                        qc.view.number.0
                    ));
                }
            }
        }
        if weight < c.schedule.quorum_threshold() {
            return Err(format!("weight {weight} below the quorum {}", c.schedule.quorum_threshold()));
        }
        Ok(())
    }

    fn judge_commit_qc(&self, node: usize, qc: &v2::CommitQC, wher: &str) {
        let key = crate::kit::hash_bytes(&zksync_protobuf::encode(qc));
        if self.inner.lock().unwrap().genuine.contains(&key) {
            return;
        }
        match self.commit_qc_genuine(qc) {
            Ok(()) => {
                self.inner.lock().unwrap().genuine.insert(key);
            }
            Err(e) => self.violation(
                "C05",
                "adopted_forged_commit_certificate",
                format!("n{node} {wher} a commit certificate (view {}) which is not backed by the signing history: {e}", qc.view().number.0),
            ),
        }
    }

    fn judge_timeout_qc(&self, node: usize, qc: &v2::TimeoutQC, wher: &str) {
        let key = crate::kit::hash_bytes(&zksync_protobuf::encode(qc)) ^ 0x7;
        if self.inner.lock().unwrap().genuine.contains(&key) {
            return;
        }
        match self.timeout_qc_genuine(qc) {
            Ok(()) => {
                self.inner.lock().unwrap().genuine.insert(key);
            }
            Err(e) => self.violation(
                "C05",
                "adopted_forged_timeout_certificate",
                format!("n{node} {wher} a timeout certificate (view {}) which is not backed by the signing history: {e}", qc.view.number.0),
            ),
        }
    }

    /// C05 oracle 4: the reference replica makes the step the real one has just made.
    pub fn on_model_step(&self, node: usize, inc: u64, s: &zksync_consensus_bft::verif::Snapshot, sent: &[super::refmodel::Sent], max_payload: usize) {
        use zksync_consensus_bft::verif::Event;
        if !self.is_correct(node) {
            return;
        }
        let mut i = self.inner.lock().unwrap();
        if s.event == Event::Start || i.mons[node].model.as_ref().is_none_or(|(mi, _)| *mi != inc) {
            // A new incarnation starts from what it loaded (restart equality is C03 / oracle 1).
            // Joining an incarnation mid-way (no Start seen) leaves the caches unknown.
            let mut m = super::refmodel::RefReplica::start(&self.committee, max_payload, s);
            m.caches_known = s.event == Event::Start;
            i.mons[node].model = Some((inc, m));
            return;
        }
        let diffs = i.mons[node].model.as_mut().unwrap().1.step(s, sent);
        drop(i);
        if !diffs.is_empty() {
            self.probe("reference_replica_deviation");
            self.violation("C05", "deviates_from_reference_replica", format!("n{node}.{inc}: {}", diffs.join(" | ")));
        } else {
            self.probe("reference_replica_steps");
        }
    }

    /// Replica snapshot (hook H3) of the live incarnation `inc` of correct node `node`.
    pub fn on_snapshot(&self, node: usize, inc: u64, s: &zksync_consensus_bft::verif::Snapshot, durable: &v2::ChonkyV2State) {
        use zksync_consensus_bft::verif::Event;
        let view = s.view.0;
        let hc = s.high_commit_qc.as_ref().map(|q| q.view().number.0);
        let ht = s.high_timeout_qc.as_ref().map(|q| q.view.number.0);
        self.ev(format!(
            "n{node}.{inc} snap {:?} view={view} {:?} hc={hc:?} ht={ht:?} caches=({},{}/{},{},{}) props={}",
            s.event, s.phase, s.commit_views, s.commit_qc_views, s.commit_qcs, s.timeout_views, s.timeout_qcs, s.proposal_cache
        ));
        let n = self.committee.n();
        // C05 oracle 1: monotone within the incarnation; a new incarnation starts from the durable state.
        let last = self.inner.lock().unwrap().mons[node].last_snap;
        match (s.event == Event::Start, last) {
            (true, _) => {
                let dh = durable.high_commit_qc.as_ref().map(|q| q.view().number.0);
                let dt = durable.high_timeout_qc.as_ref().map(|q| q.view.number.0);
                if view < durable.view_number.0 || hc < dh || ht < dt {
                    self.violation(
                        "C05",
                        "restart_below_durable_state",
                        format!("n{node}.{inc} starts at view {view} hc {hc:?} ht {ht:?}, durable state is view {} hc {dh:?} ht {dt:?}", durable.view_number.0),
                    );
                }
            }
            (false, Some((linc, lv, lhc, lht))) if linc == inc => {
                if view < lv {
                    self.violation("C05", "view_decreased", format!("n{node}.{inc}: view {lv} -> {view}"));
                }
                if hc < lhc {
                    self.violation("C05", "high_commit_qc_decreased", format!("n{node}.{inc}: {lhc:?} -> {hc:?}"));
                }
                if ht < lht {
                    self.violation("C05", "high_timeout_qc_decreased", format!("n{node}.{inc}: {lht:?} -> {ht:?}"));
                }
            }
            _ => {}
        }
        self.inner.lock().unwrap().mons[node].last_snap = Some((inc, view, hc, ht));
        // C05 oracle 2: the current view is justified by a certificate for the preceding view
        // (or a newer one), and every certificate held is genuine.
        if view > 0 {
            let best = hc.max(ht);
            if best.is_none_or(|b| b + 1 < view) {
                self.violation(
                    "C05",
                    "unjustified_view",
                    format!("n{node}.{inc} is in view {view} but its highest certificates are hc {hc:?} ht {ht:?}"),
                );
            } else if best.is_some_and(|b| b + 1 > view) {
                self.probe("certificate_ahead_of_view");
                // A certificate from the future of the current view can only be learned through
                // a timeout certificate into which a Byzantine validator put a high certificate
                // newer than the view it timed out in.  Without Byzantine validators every view is
                // entered on a certificate for exactly the preceding view.
                if self.committee.byz_weight() == 0 {
                    self.violation(
                        "C05",
                        "view_not_preceded_by_its_certificate",
                        format!("n{node}.{inc} is in view {view} while holding certificates hc {hc:?} ht {ht:?}: the view was not entered on a certificate for the preceding view"),
                    );
                }
            }
        }
        if let Some(q) = &s.high_commit_qc {
            self.judge_commit_qc(node, q, "holds");
        }
        if let Some(q) = &s.high_timeout_qc {
            self.judge_timeout_qc(node, q, "holds");
        }
        // C05: certificates carried by an *accepted* new-view / proposal are adopted when newer
        // (commit certificate first, also the one embedded in a timeout certificate).
        if let Event::Handled { error: None, msg, .. } = &s.event {
            let validator::ConsensusMsg::V2(m) = &msg.msg;
            let j = match m {
                v2::ChonkyMsg::ReplicaNewView(nv) => Some(&nv.justification),
                v2::ChonkyMsg::LeaderProposal(p) => Some(&p.justification),
                _ => None,
            };
            if let Some(j) = j {
                let (jc, jt) = match j {
                    v2::ProposalJustification::Commit(q) => (Some(q.view().number.0), None),
                    v2::ProposalJustification::Timeout(t) => (t.high_qc().map(|q| q.view().number.0), Some(t.view.number.0)),
                };
                if jc > hc || jt > ht {
                    self.violation(
                        "C05",
                        "certificate_not_adopted",
                        format!(
                            "n{node}.{inc} accepted {} carrying a commit certificate for view {jc:?} / timeout certificate for view {jt:?}, but holds hc {hc:?} ht {ht:?} afterwards",
                            describe(msg)
                        ),
                    );
                }
            }
        }
        // C16 (replica half): bookkeeping bounded by the committee size alone.
        let bounds = [
            ("commit_views_cache", s.commit_views, n),
            ("timeout_views_cache", s.timeout_views, n),
            ("commit_qcs_cache views", s.commit_qc_views, n),
            ("timeout_qcs_cache", s.timeout_qcs, n),
            ("commit_qcs_cache certificates", s.commit_qcs, n * n),
        ];
        for (name, got, max) in bounds {
            if got > max {
                self.violation(
                    "C16",
                    "replica_cache_unbounded",
                    format!("n{node}.{inc}: {name} has {got} entries, bound for a committee of {n} is {max}"),
                );
            }
        }
        if s.commit_qc_views >= 2 || s.timeout_qcs >= 2 {
            self.probe("several_partial_certificates");
        }
        // Abstract state x input cell (coverage measure).
        let rel = |a: Option<u64>, b: u64| match a {
            None => 0u64,
            Some(x) if x + 1 < b => 1,
            Some(x) if x + 1 == b => 2,
            _ => 3,
        };
        let (label, mv, err) = match &s.event {
            Event::Start => ("start", 0u64, 0u64),
            Event::Timeout => ("timer", 0, 0),
            Event::Handled { label, view: mv, error, .. } => (
                *label,
                if *mv < view { 1 } else if *mv == view { 2 } else { 3 },
                error.as_ref().map(|e| crate::kit::hash_bytes(e.as_bytes())).unwrap_or(0),
            ),
        };
        let hv_rel = match (&s.high_vote, &s.high_commit_qc) {
            (None, _) => 0u64,
            (Some(_), None) => 1,
            (Some(v), Some(q)) if v.proposal.number > q.header().number => 2,
            _ => 3,
        };
        let mut cell = crate::kit::hash_bytes(label.as_bytes());
        for x in [s.phase as u64, rel(hc, view), rel(ht, view), hv_rel, mv, err] {
            cell = crate::kit::mix(cell, x);
        }
        self.inner.lock().unwrap().abstract_states.insert(cell);
    }

    /// C05 oracle 3: a new-view / timeout / proposal emitted by a correct node is self-justifying.
    pub fn check_self_justifying(
        &self,
        node: usize,
        inc: u64,
        msg: &validator::Signed<validator::ConsensusMsg>,
        cur_view: Option<u64>,
        snap: Option<&zksync_consensus_bft::verif::Snapshot>,
    ) {
        // The message carries the highest certificate the replica holds: commit certificate
        // preferred on a tie (new-view), the replica's high vote and high commit certificate
        // (timeout vote).
        if let Some(s) = snap {
            let validator::ConsensusMsg::V2(m) = &msg.msg;
            match m {
                v2::ChonkyMsg::ReplicaNewView(nv) => {
                    let hcv = s.high_commit_qc.as_ref().map(|q| q.view().number.0);
                    let htv = s.high_timeout_qc.as_ref().map(|q| q.view.number.0);
                    let want_commit = hcv >= htv;
                    let ok = match &nv.justification {
                        v2::ProposalJustification::Commit(q) => want_commit && Some(q) == s.high_commit_qc.as_ref(),
                        v2::ProposalJustification::Timeout(q) => !want_commit && Some(q) == s.high_timeout_qc.as_ref(),
                    };
                    if !ok {
                        self.violation(
                            "C05",
                            "new_view_not_justified_by_highest_certificate",
                            format!("n{node}.{inc} emits {} while holding hc {hcv:?} ht {htv:?} (commit certificate preferred on a tie)", describe(msg)),
                        );
                    }
                    if self.committee.byz_weight() == 0 && nv.view().number != s.view {
                        self.violation(
                            "C05",
                            "new_view_for_another_view",
                            format!("n{node}.{inc} emits a new-view for view {} while being in view {}", nv.view().number.0, s.view.0),
                        );
                    }
                }
                v2::ChonkyMsg::ReplicaTimeout(t) => {
                    if t.high_qc != s.high_commit_qc || t.high_vote != s.high_vote || t.view.number != s.view {
                        self.violation(
                            "C05",
                            "timeout_vote_does_not_carry_state",
                            format!("n{node}.{inc} emits {} but its state is view {} hc {:?} high vote {:?}", describe(msg), s.view.0,
                                s.high_commit_qc.as_ref().map(|q| q.view().number.0), s.high_vote.as_ref().map(|v| v.view.number.0)),
                        );
                    }
                }
                _ => {}
            }
        }
        let validator::ConsensusMsg::V2(m) = &msg.msg;
        let c = &self.committee;
        let g = c.genesis.hash();
        let e = validator::EpochNumber(0);
        let res: Result<(), String> = match m {
            v2::ChonkyMsg::ReplicaNewView(nv) => {
                if let v2::ProposalJustification::Commit(q) = &nv.justification {
                    self.judge_commit_qc(node, q, "emits");
                }
                if let v2::ProposalJustification::Timeout(q) = &nv.justification {
                    self.judge_timeout_qc(node, q, "emits");
                }
                if let Some(cv) = cur_view {
                    if nv.view().number.0 < cv {
                        self.violation(
                            "C05",
                            "new_view_below_current_view",
                            format!("n{node}.{inc} emits a new-view for view {} while being in view {cv}", nv.view().number.0),
                        );
                    }
                }
                nv.verify(g, e, &c.schedule).map_err(|e| format!("{e:#}"))
            }
            v2::ChonkyMsg::ReplicaTimeout(t) => {
                if let Some(q) = &t.high_qc {
                    self.judge_commit_qc(node, q, "emits");
                }
                t.verify(g, e, &c.schedule).map_err(|e| format!("{e:#}"))
            }
            v2::ChonkyMsg::LeaderProposal(p) => p.verify(g, e, &c.schedule).map_err(|e| format!("{e:#}")),
            v2::ChonkyMsg::ReplicaCommit(cm) => cm.verify(g, e).map_err(|e| format!("{e:#}")),
        };
        if let Err(e) = res {
            self.violation(
                "C05",
                "emitted_message_not_self_justifying",
                format!("n{node}.{inc} emitted {} which does not verify in isolation: {e}", describe(msg)),
            );
        }
    }

    pub fn on_justification(&self, j: &v2::ProposalJustification, wher: &str) {
        match j {
            v2::ProposalJustification::Commit(qc) => self.on_certificate(qc, wher),
            v2::ProposalJustification::Timeout(tqc) => {
                if let Some(qc) = tqc.high_qc() {
                    self.on_certificate(qc, wher);
                }
            }
        }
    }
}

pub fn short(h: &validator::PayloadHash) -> String {
    let s = format!("{h:?}");
    s.rsplit(':').next().unwrap_or("")[..8].to_string()
}

pub fn describe(msg: &validator::Signed<validator::ConsensusMsg>) -> String {
    let validator::ConsensusMsg::V2(m) = &msg.msg;
    match m {
        v2::ChonkyMsg::LeaderProposal(p) => format!(
            "Proposal(v{} {} payload={})",
            p.view().number.0,
            match &p.justification {
                v2::ProposalJustification::Commit(_) => "jc",
                v2::ProposalJustification::Timeout(_) => "jt",
            },
            p.proposal_payload.as_ref().map(|x| short(&x.hash())).unwrap_or("-".into())
        ),
        v2::ChonkyMsg::ReplicaCommit(c) => format!(
            "Commit(v{} #{} {})",
            c.view.number.0,
            c.proposal.number.0,
            short(&c.proposal.payload)
        ),
        v2::ChonkyMsg::ReplicaTimeout(t) => format!(
            "Timeout(v{} hv={} hq={})",
            t.view.number.0,
            t.high_vote.as_ref().map(|v| format!("v{}#{}", v.view.number.0, v.proposal.number.0)).unwrap_or("-".into()),
            t.high_qc.as_ref().map(|v| format!("v{}#{}", v.view().number.0, v.header().number.0)).unwrap_or("-".into()),
        ),
        v2::ChonkyMsg::ReplicaNewView(n) => format!(
            "NewView(v{} {})",
            n.view().number.0,
            match &n.justification {
                v2::ProposalJustification::Commit(_) => "jc",
                v2::ProposalJustification::Timeout(_) => "jt",
            }
        ),
    }
}
