//! C12 (handshake half): a real node (victim) - accept loop -> preface -> noise ->
//! `handshake::inbound`, and the outbound dialer -> `handshake::outbound` - over simulated TCP,
//! against an adversary which holds a Byzantine committee key, outsider keys, can listen, dial,
//! hijack addresses (man in the middle), record and replay handshakes of an honest node.
//!
//! Oracle: ground truth is who operates the far end of each connection and which secret keys
//! that actor holds.  Whenever an identity K appears in one of the victim's pools, a live
//! connection in that direction must exist whose far-end actor holds K's secret; validator pools
//! admit committee members only; keys outside the configured set stay within the quota.
use std::{collections::{BTreeMap, BTreeSet, HashMap, HashSet}, net::SocketAddr, rc::Rc, sync::{Arc, Mutex}};

use rand::Rng;
use serde_json::json;
use tokio::io::{AsyncReadExt, AsyncWriteExt};
use zksync_concurrency::{ctx::{self, channel}, limiter, net, oneshot, scope, time, verif::{net_shim, tokio_shim as gtokio}};
use zksync_consensus_bft as bft;
use zksync_consensus_crypto::ByteFmt;
use zksync_consensus_engine::EngineManager;
use zksync_consensus_network as network;
use zksync_consensus_network::verif::noise;
use zksync_consensus_roles::{node, validator};

use crate::{
    bft::{engine::{NodeStore, SimEngine}, hub::{Committee, Hub}},
    cli::CaseResult,
    kit::{self, proto::{field_bytes, field_varint, framed, get_bytes}, simnet::{Net, TcpEnd}, Sched},
    prim::{finish, new_hist, Director, HistExt, SharedHist},
};

#[derive(Debug, Clone)]
pub enum Ev {
    Note(String),
    Pool { pool: &'static str, keys: Vec<String> },
}

const ENC_NOISE: [u8; 2] = [0x0a, 0x00];
const EP_CONSENSUS: [u8; 2] = [0x0a, 0x00];
const EP_GOSSIP: [u8; 2] = [0x12, 0x00];

fn addr(port: u16) -> SocketAddr {
    format!("127.0.0.1:{port}").parse().unwrap()
}

struct World {
    committee: Committee,
    node_keys: Vec<node::SecretKey>, // N0 (victim), N1 (honest), NB (adversary), NX (outsider)
    vx: validator::SecretKey,        // outsider validator key
}

/// Starts a real node; returns (its Network handle slot, kill switch, join handle).
#[allow(clippy::type_complexity)]
fn start_node(
    w: &World,
    hub: &Arc<Hub>,
    clock: &ctx::ManualClock,
    sched: &Sched,
    net: &Net,
    tag: u64,
    name: &str,
    vidx: usize,
    nidx: usize,
    port: u16,
    dynamic_inbound_limit: usize,
    static_inbound: HashSet<node::PublicKey>,
    static_outbound: HashMap<node::PublicKey, net::Host>,
) -> (Arc<Mutex<Option<Arc<network::Network>>>>, oneshot::Sender<()>, tokio::task::JoinHandle<()>) {
    net.0.lock().unwrap().actors.insert(tag, name.to_string());
    let store = Arc::new(Mutex::new(NodeStore::new(w.committee.genesis.first_block, true)));
    let engine = SimEngine::new_incarnation(vidx, w.committee.genesis.clone(), store, hub.clone());
    let cfg = network::Config {
        build_version: None,
        server_addr: net::tcp::ListenerAddr::new(addr(port)),
        public_addr: addr(port).into(),
        gossip: network::GossipConfig {
            key: w.node_keys[nidx].clone(),
            dynamic_inbound_limit,
            static_inbound,
            static_outbound,
        },
        validator_key: Some(w.committee.keys[vidx].clone()),
        max_block_size: 100_000,
        max_tx_size: 10_000,
        ping_timeout: None,
        tcp_accept_rate: limiter::Rate::INF,
        rpc: network::RpcConfig::default(),
        max_block_queue_size: 10,
    };
    let slot: Arc<Mutex<Option<Arc<network::Network>>>> = Arc::default();
    let slot2 = slot.clone();
    let (kill, kill_recv) = oneshot::channel::<()>();
    let clock = clock.clone();
    sched.set_spawn_tag(tag);
    let h = gtokio::spawn(async move {
        let root = ctx::test_root(&clock);
        let ctx = &root;
        let Ok((mgr, runner)) = EngineManager::new(ctx, Box::new(engine), time::Duration::seconds(1)).await else { return };
        let (cons_send, _cons_recv) = bft::create_input_channel();
        let (_out_send, out_recv) = channel::unbounded();
        let Ok((net, net_runner)) = network::Network::new(cfg, mgr, Some(validator::EpochNumber(0)), cons_send, out_recv) else { return };
        *slot2.lock().unwrap() = Some(net);
        let _: anyhow::Result<()> = scope::run!(ctx, |ctx, s| async move {
            s.spawn_bg(async move { runner.run(ctx).await });
            s.spawn_bg(async move { net_runner.run(ctx, false).await });
            let _ = kill_recv.recv_or_disconnected(ctx).await;
            Ok(())
        })
        .await;
    });
    sched.set_spawn_tag(0);
    (slot, kill, h)
}

// --- adversary building blocks -----------------------------------------------------------------

async fn send_frame<S: tokio::io::AsyncWrite + Unpin>(s: &mut S, msg: &[u8]) -> bool {
    s.write_all(&framed(msg)).await.is_ok() && s.flush().await.is_ok()
}

async fn recv_frame<S: tokio::io::AsyncRead + Unpin>(s: &mut S) -> Option<Vec<u8>> {
    let mut len = [0u8; 4];
    s.read_exact(&mut len).await.ok()?;
    let n = u32::from_le_bytes(len) as usize;
    if n > 20_000 {
        return None;
    }
    let mut b = vec![0u8; n];
    s.read_exact(&mut b).await.ok()?;
    Some(b)
}

/// Client side of the preface: encryption frame, noise handshake, endpoint frame.
async fn preface_connect(ctx: &ctx::Ctx, mut tcp: TcpEnd, endpoint: &[u8]) -> Option<noise::Stream<TcpEnd>> {
    if !send_frame(&mut tcp, &ENC_NOISE).await {
        return None;
    }
    let mut s = noise::Stream::client_handshake(ctx, tcp).await.ok()?;
    if !send_frame(&mut s, endpoint).await {
        return None;
    }
    Some(s)
}

/// Server side of the preface (the adversary accepting a connection).
async fn preface_accept(ctx: &ctx::Ctx, mut tcp: TcpEnd) -> Option<(noise::Stream<TcpEnd>, Vec<u8>)> {
    let _enc = recv_frame(&mut tcp).await?;
    let mut s = noise::Stream::server_handshake(ctx, tcp).await.ok()?;
    let ep = recv_frame(&mut s).await?;
    Some((s, ep))
}

fn consensus_handshake(signed: &validator::Signed<node::SessionId>, genesis: &validator::GenesisHash) -> Vec<u8> {
    let mut m = vec![];
    field_bytes(1, &zksync_protobuf::encode(signed), &mut m);
    field_bytes(2, &zksync_protobuf::encode(genesis), &mut m);
    m
}

fn gossip_handshake(signed: &node::Signed<node::SessionId>, genesis: &validator::GenesisHash, is_static: bool) -> Vec<u8> {
    let mut m = vec![];
    field_bytes(1, &zksync_protobuf::encode(signed), &mut m);
    field_varint(2, is_static as u64, &mut m);
    field_bytes(3, &zksync_protobuf::encode(genesis), &mut m);
    m
}

fn session_id<S>(s: &noise::Stream<S>) -> node::SessionId
where
    S: tokio::io::AsyncRead + tokio::io::AsyncWrite + Unpin,
{
    node::SessionId(s.id().encode())
}

pub async fn run(seed: u64, sched: Rc<Sched>, keep_log: bool) -> (CaseResult, Vec<String>) {
    let mut rng = kit::stream(seed, "admission");
    let hist: SharedHist<Ev> = new_hist(keep_log);
    let clock = ctx::ManualClock::new();
    let net = Net::new(seed);
    net.0.lock().unwrap().fragment = rng.gen_range(0..100) < 40;
    net_shim::install_net(Some(net.handle()));
    // Committee: V0 victim, V1 honest, VB Byzantine (adversary); weights irrelevant here.
    let cfg = crate::bft::Cfg {
        seed,
        weights: vec![1, 1, 1, 1, 1, 1],
        leaders: vec![true; 6],
        byz: vec![false, false, true, false, false, false],
        weighted: false,
        frequency: 1,
        first_block: 0,
        max_payload: 1000,
        max_pad: 0,
        view_timeout_ms: 2000,
        policy: kit::Policy::Uniform,
        persist_now: true,
        faults: Default::default(),
        n_actions: 0,
        twins: 0,
        arm: None,
    };
    let committee = crate::bft::cluster::make_committee(&cfg);
    let hub = Arc::new(Hub::new(committee.clone(), kit::stream(seed, "pad"), 0, false));
    let w = World {
        committee,
        node_keys: (0..4).map(|_| rng.gen()).collect(),
        vx: rng.gen(),
    };
    let genesis = w.committee.genesis.hash();
    let other_genesis: validator::GenesisHash = rng.gen();
    let (av, a1, aadv) = (addr(3000), addr(3001), addr(3999));
    let strategy = rng.gen_range(0..18u32);
    let needs_h1 = matches!(strategy, 2 | 7 | 9 | 10);
    let dyn_limit = rng.gen_range(0..3usize);
    let static_in: HashSet<node::PublicKey> = if rng.gen_bool(0.5) { [w.node_keys[1].public()].into() } else { HashSet::new() };
    // GO (strategy 17): the victim has two configured outbound gossip peers, N1 at the address the
    // adversary listens on and NB (the adversary's own node identity) elsewhere.
    let static_out: HashMap<node::PublicKey, net::Host> = if strategy == 17 {
        [(w.node_keys[1].public(), net::Host(aadv.to_string())), (w.node_keys[2].public(), net::Host(addr(3998).to_string()))].into()
    } else {
        HashMap::new()
    };
    let (victim_slot, kill_v, hv) = start_node(&w, &hub, &clock, &sched, &net, 1, "victim", 0, 0, 3000, dyn_limit, static_in.clone(), static_out);
    let h1 = if needs_h1 { Some(start_node(&w, &hub, &clock, &sched, &net, 2, "h1", 1, 1, 3001, 5, HashSet::new(), HashMap::new())) } else { None };
    hist.note(format!("strategy {strategy}, h1={needs_h1}, dynamic_inbound_limit={dyn_limit}, static_inbound={}", static_in.len()));
    // Which secrets does each actor hold (by public key text)?
    let pk = |k: &validator::SecretKey| format!("{:?}", k.public());
    let npk = |k: &node::SecretKey| format!("{:?}", k.public());
    let mut holds: BTreeMap<&'static str, BTreeSet<String>> = BTreeMap::new();
    holds.insert("victim", [pk(&w.committee.keys[0]), npk(&w.node_keys[0])].into());
    holds.insert("h1", [pk(&w.committee.keys[1]), npk(&w.node_keys[1])].into());
    holds.insert("adv", [pk(&w.committee.keys[2]), pk(&w.vx), npk(&w.node_keys[2]), npk(&w.node_keys[3])].into());
    let committee_keys: BTreeSet<String> = w.committee.keys.iter().map(pk).collect();

    // --- the adversary (harness tasks, actor "adv") ------------------------------------------
    let adv_clock = clock.clone();
    let net2 = net.clone();
    let hist_a = hist.clone();
    let vb = w.committee.keys[2].clone();
    let v1pub = w.committee.keys[1].public();
    let vx = w.vx.clone();
    let (nb, nx, n1pub) = (w.node_keys[2].clone(), w.node_keys[3].clone(), w.node_keys[1].public());
    let vslot = victim_slot.clone();
    let h1slot = h1.as_ref().map(|x| x.0.clone());
    let v0key = w.committee.keys[0].clone();
    let v1key = w.committee.keys[1].clone();
    let mut arng = kit::stream(seed, "adv");
    // Keys the adversary generates on the fly (it holds their secrets).
    let adv_extra: Arc<Mutex<BTreeSet<String>>> = Arc::default();
    let adv_extra2 = adv_extra.clone();
    // Gossip connections on which the victim accepted the adversary's handshake: (conn, identity).
    let claims: Arc<Mutex<Vec<(u64, String)>>> = Arc::default();
    let claims2 = claims.clone();
    let v0pub = w.committee.keys[0].public();
    let adversary = gtokio::spawn(async move {
        let root = ctx::test_root(&adv_clock);
        let ctx = &root.with_timeout(time::Duration::seconds(60));
        // Connections are kept open (in this vector) until the end of the run.
        let mut keep: Vec<noise::Stream<TcpEnd>> = vec![];
        let note = |s: String| hist_a.note(format!("adv: {s}"));
        // Wait for the nodes to come up.
        loop {
            let up = vslot.lock().unwrap().is_some() && h1slot.as_ref().is_none_or(|s| s.lock().unwrap().is_some());
            if up || ctx.sleep(time::Duration::milliseconds(10)).await.is_err() {
                break;
            }
        }
        // (Strategy 15 sometimes races the victim's own loopback connection.)
        if !(strategy == 15 && arng.gen_bool(0.5)) {
            let _ = ctx.sleep(time::Duration::milliseconds(50)).await;
        }
        match strategy {
            // I0: genuine handshake as the Byzantine committee member VB (control).
            0 => {
                if let Some(mut s) = async { preface_connect(ctx, net2.dial_as(av, "adv").ok()?, &EP_CONSENSUS).await }.await {
                    let sid = session_id(&s);
                    send_frame(&mut s, &consensus_handshake(&vb.sign_msg(sid), &genesis)).await;
                    note(format!("I0 response: {}", recv_frame(&mut s).await.is_some()));
                    keep.push(s);
                }
            }
            // I1: claim V1's identity, signed with VB's key.
            1 => {
                if let Some(mut s) = async { preface_connect(ctx, net2.dial_as(av, "adv").ok()?, &EP_CONSENSUS).await }.await {
                    let sid = session_id(&s);
                    let mut signed = vb.sign_msg(sid);
                    signed.key = v1pub.clone();
                    send_frame(&mut s, &consensus_handshake(&signed, &genesis)).await;
                    note(format!("I1 response: {}", recv_frame(&mut s).await.is_some()));
                    keep.push(s);
                }
            }
            // I2: replay H1's handshake recorded on another session.
            2 => {
                let rec = async {
                    let mut s = preface_connect(ctx, net2.dial_as(a1, "adv").ok()?, &EP_CONSENSUS).await?;
                    let sid = session_id(&s);
                    send_frame(&mut s, &consensus_handshake(&vb.sign_msg(sid), &genesis)).await;
                    let resp = recv_frame(&mut s).await?;
                    Some((s, resp))
                }
                .await;
                if let Some((s1, h1_handshake)) = rec {
                    note("I2 recorded H1's handshake".into());
                    keep.push(s1);
                    if let Some(mut s) = async { preface_connect(ctx, net2.dial_as(av, "adv").ok()?, &EP_CONSENSUS).await }.await {
                        send_frame(&mut s, &h1_handshake).await;
                        note(format!("I2 response: {}", recv_frame(&mut s).await.is_some()));
                        keep.push(s);
                    }
                }
            }
            // I3: another chain.
            3 => {
                if let Some(mut s) = async { preface_connect(ctx, net2.dial_as(av, "adv").ok()?, &EP_CONSENSUS).await }.await {
                    let sid = session_id(&s);
                    send_frame(&mut s, &consensus_handshake(&vb.sign_msg(sid), &other_genesis)).await;
                    note(format!("I3 response: {}", recv_frame(&mut s).await.is_some()));
                    keep.push(s);
                }
            }
            // I4: a key outside the committee on the validator endpoint.
            4 => {
                if let Some(mut s) = async { preface_connect(ctx, net2.dial_as(av, "adv").ok()?, &EP_CONSENSUS).await }.await {
                    let sid = session_id(&s);
                    send_frame(&mut s, &consensus_handshake(&vx.sign_msg(sid), &genesis)).await;
                    note(format!("I4 response: {}", recv_frame(&mut s).await.is_some()));
                    keep.push(s);
                }
            }
            // I5: the same identity on several concurrent sessions.
            5 => {
                for k in 0..arng.gen_range(2..5) {
                    if let Some(mut s) = async { preface_connect(ctx, net2.dial_as(av, "adv").ok()?, &EP_CONSENSUS).await }.await {
                        let sid = session_id(&s);
                        send_frame(&mut s, &consensus_handshake(&vb.sign_msg(sid), &genesis)).await;
                        note(format!("I5 session {k} response: {}", recv_frame(&mut s).await.is_some()));
                        keep.push(s);
                    }
                }
            }
            // I6: truncated / garbage handshake, then silence.
            6 => {
                if let Some(mut s) = async { preface_connect(ctx, net2.dial_as(av, "adv").ok()?, &EP_CONSENSUS).await }.await {
                    let sid = session_id(&s);
                    let h = framed(&consensus_handshake(&vb.sign_msg(sid), &genesis));
                    let cut = arng.gen_range(0..h.len());
                    let _ = s.write_all(&h[..cut]).await;
                    let _ = s.flush().await;
                    keep.push(s);
                }
            }
            // I7: relay. H1 is made to dial the adversary (its address book says V0 lives there);
            // the adversary forwards H1's handshake to the real victim on another session.
            7 => {
                let Ok(mut l) = net2.listen_as(aadv, "adv") else { return };
                let h1net_opt = h1slot.as_ref().and_then(|s| s.lock().unwrap().clone());
                if let Some(h1net) = h1net_opt {
                    let ann = Arc::new(v0key.sign_msg(validator::NetAddress { addr: aadv, version: 5, timestamp: adv_clock.now_utc() }));
                    let _ = network::verif::push_validator_addrs(&h1net, ctx, &[ann]).await;
                }
                let r = async {
                    let (tcp, _) = ctx.wait(l.accept()).await.ok()?.ok()?;
                    let (mut sa, _ep) = preface_accept(ctx, tcp).await?;
                    let h1_handshake = recv_frame(&mut sa).await?;
                    let mut sb = preface_connect(ctx, net2.dial_as(av, "adv").ok()?, &EP_CONSENSUS).await?;
                    send_frame(&mut sb, &h1_handshake).await;
                    let resp = recv_frame(&mut sb).await;
                    if let Some(r) = &resp {
                        send_frame(&mut sa, r).await;
                    }
                    Some((sa, sb, resp.is_some()))
                }
                .await;
                if let Some((sa, sb, ok)) = r {
                    note(format!("I7 relayed, victim answered: {ok}"));
                    keep.push(sa);
                    keep.push(sb);
                }
            }
            // O1: the victim dials V1 (address book entry signed by V1 - e.g. an old, leaked or
            // hijacked announcement) and reaches the adversary, which answers as VB.
            // O4 (control): the entry is VB's own; the adversary answers as VB.
            8 | 11 => {
                let Ok(mut l) = net2.listen_as(aadv, "adv") else { return };
                let claimed = if strategy == 8 { v1key.clone() } else { vb.clone() };
                let vnet_opt = vslot.lock().unwrap().clone();
                if let Some(vnet) = vnet_opt {
                    let ann = Arc::new(claimed.sign_msg(validator::NetAddress { addr: aadv, version: 1, timestamp: adv_clock.now_utc() }));
                    let _ = network::verif::push_validator_addrs(&vnet, ctx, &[ann]).await;
                }
                let r = async {
                    let (tcp, _) = ctx.wait(l.accept()).await.ok()?.ok()?;
                    let (mut s, _ep) = preface_accept(ctx, tcp).await?;
                    let _their = recv_frame(&mut s).await?;
                    let sid = session_id(&s);
                    send_frame(&mut s, &consensus_handshake(&vb.sign_msg(sid), &genesis)).await;
                    Some(s)
                }
                .await;
                if let Some(s) = r {
                    note(format!("O{} answered the victim's dial", if strategy == 8 { 1 } else { 4 }));
                    keep.push(s);
                }
            }
            // O2: the victim dials V1 and reaches the adversary, which relays to the real H1.
            9 => {
                let Ok(mut l) = net2.listen_as(aadv, "adv") else { return };
                let vnet_opt = vslot.lock().unwrap().clone();
                if let Some(vnet) = vnet_opt {
                    let ann = Arc::new(v1key.sign_msg(validator::NetAddress { addr: aadv, version: 1, timestamp: adv_clock.now_utc() }));
                    let _ = network::verif::push_validator_addrs(&vnet, ctx, &[ann]).await;
                }
                let r = async {
                    let (tcp, _) = ctx.wait(l.accept()).await.ok()?.ok()?;
                    let (mut sa, _ep) = preface_accept(ctx, tcp).await?;
                    let victims = recv_frame(&mut sa).await?;
                    let mut sb = preface_connect(ctx, net2.dial_as(a1, "adv").ok()?, &EP_CONSENSUS).await?;
                    send_frame(&mut sb, &victims).await;
                    let resp = recv_frame(&mut sb).await;
                    if let Some(r) = &resp {
                        send_frame(&mut sa, r).await;
                    }
                    Some((sa, sb))
                }
                .await;
                if let Some((sa, sb)) = r {
                    note("O2 relayed the victim's dial to H1".into());
                    keep.push(sa);
                    keep.push(sb);
                }
            }
            // O3: the victim dials V1, the adversary replays a handshake of H1 from another session.
            10 => {
                let Ok(mut l) = net2.listen_as(aadv, "adv") else { return };
                let rec = async {
                    let mut s = preface_connect(ctx, net2.dial_as(a1, "adv").ok()?, &EP_CONSENSUS).await?;
                    let sid = session_id(&s);
                    send_frame(&mut s, &consensus_handshake(&vb.sign_msg(sid), &genesis)).await;
                    let resp = recv_frame(&mut s).await?;
                    Some((s, resp))
                }
                .await;
                let Some((s1, h1_handshake)) = rec else { return };
                keep.push(s1);
                let vnet_opt = vslot.lock().unwrap().clone();
                if let Some(vnet) = vnet_opt {
                    let ann = Arc::new(v1key.sign_msg(validator::NetAddress { addr: aadv, version: 1, timestamp: adv_clock.now_utc() }));
                    let _ = network::verif::push_validator_addrs(&vnet, ctx, &[ann]).await;
                }
                let r = async {
                    let (tcp, _) = ctx.wait(l.accept()).await.ok()?.ok()?;
                    let (mut s, _ep) = preface_accept(ctx, tcp).await?;
                    let _their = recv_frame(&mut s).await?;
                    send_frame(&mut s, &h1_handshake).await;
                    Some(s)
                }
                .await;
                if let Some(s) = r {
                    note("O3 replayed H1's handshake to the dialling victim".into());
                    keep.push(s);
                }
            }
            // GD: gossip endpoint, the same few identities dial again and again (connect,
            // duplicate, connect again ...): one connection per identity, quota in force.
            14 => {
                adv_extra2.lock().unwrap().insert(format!("{:?}", nx.public()));
                for _ in 0..arng.gen_range(3..7) {
                    let key = if arng.gen_range(0..100) < 70 { &nb } else { &nx };
                    let Ok(tcp) = net2.dial_as(av, "adv") else { continue };
                    let conn = tcp.conn;
                    let Some(mut s) = preface_connect(ctx, tcp, &EP_GOSSIP).await else { continue };
                    let sid = session_id(&s);
                    send_frame(&mut s, &gossip_handshake(&key.sign_msg(sid), &genesis, false)).await;
                    if recv_frame(&mut s).await.is_some() {
                        claims2.lock().unwrap().push((conn, format!("{:?}", key.public())));
                    }
                    keep.push(s);
                    if arng.gen_bool(0.5) {
                        let _ = ctx.sleep(time::Duration::milliseconds(arng.gen_range(1..30))).await;
                    }
                }
            }
            // I8: claim the victim's own validator identity (signed with VB's key), racing or
            // displacing the victim's loopback connection.
            15 => {
                if arng.gen_bool(0.5) {
                    let k = net2.cut(|c| c.client == "victim" && c.server == "victim");
                    note(format!("I8 cut {k} loopback connections"));
                }
                for _ in 0..arng.gen_range(1..4) {
                    if let Some(mut s) = async { preface_connect(ctx, net2.dial_as(av, "adv").ok()?, &EP_CONSENSUS).await }.await {
                        let sid = session_id(&s);
                        let mut signed = vb.sign_msg(sid);
                        signed.key = v0pub.clone();
                        send_frame(&mut s, &consensus_handshake(&signed, &genesis)).await;
                        note(format!("I8 response: {}", recv_frame(&mut s).await.is_some()));
                        keep.push(s);
                    }
                }
            }
            // O5: the victim's own public address is hijacked: its loopback dial reaches the
            // adversary, which answers claiming to be the victim itself (signed with VB's key).
            16 => {
                let Ok(mut l) = net2.listen_as(aadv, "adv") else { return };
                net2.0.lock().unwrap().hijack.insert(av, aadv);
                let k = net2.cut(|c| c.client == "victim" && c.server == "victim");
                note(format!("O5 hijacked the victim's own address, cut {k} loopback connections"));
                for _ in 0..arng.gen_range(1..6) {
                    let r = async {
                        let (tcp, _) = ctx.wait(l.accept()).await.ok()?.ok()?;
                        let (mut s, _ep) = preface_accept(ctx, tcp).await?;
                        let _their = recv_frame(&mut s).await?;
                        let sid = session_id(&s);
                        let mut signed = vb.sign_msg(sid);
                        signed.key = v0pub.clone();
                        send_frame(&mut s, &consensus_handshake(&signed, &genesis)).await;
                        Some(s)
                    }
                    .await;
                    match r {
                        Some(s) => keep.push(s),
                        None => break,
                    }
                }
                drop(l);
                net2.0.lock().unwrap().hijack.remove(&av);
            }
            // GO: the victim dials its configured gossip peer N1 and reaches the adversary, which
            // answers with a genuine handshake of *another* configured peer (NB, whose key it holds).
            17 => {
                let Ok(mut l) = net2.listen_as(aadv, "adv") else { return };
                for k in 0..2 {
                    let Some(tcp) = async { Some(ctx.wait(l.accept()).await.ok()?.ok()?.0) }.await else { break };
                    let Some((mut s, _ep)) = preface_accept(ctx, tcp).await else { continue };
                    let sid = session_id(&s);
                    let theirs = recv_frame(&mut s).await;
                    send_frame(&mut s, &gossip_handshake(&nb.sign_msg(sid), &genesis, true)).await;
                    note(format!("GO session {k}: victim's handshake received: {}", theirs.is_some()));
                    keep.push(s);
                }
            }
            // G: gossip endpoint. Several identities dial: outsiders (quota), a forged static peer.
            _ => {
                let forged_static = strategy == 13;
                let n_out = arng.gen_range(1..5usize);
                let extra_keys: Vec<node::SecretKey> = (0..n_out).map(|_| arng.gen()).collect();
                adv_extra2.lock().unwrap().extend(extra_keys.iter().map(|k| format!("{:?}", k.public())));
                let mut ids: Vec<(node::Signed<node::SessionId>, bool)> = vec![];
                for k in 0..n_out + 2 {
                    let Some(mut s) = async { preface_connect(ctx, net2.dial_as(av, "adv").ok()?, &EP_GOSSIP).await }.await else { continue };
                    let sid = session_id(&s);
                    let signed = match k {
                        0 => nb.sign_msg(sid),
                        1 if forged_static => {
                            let mut x = nx.sign_msg(sid);
                            x.key = n1pub.clone();
                            x
                        }
                        1 => nx.sign_msg(sid),
                        _ => extra_keys[k - 2].sign_msg(sid),
                    };
                    ids.push((signed.clone(), k == 1 && forged_static));
                    send_frame(&mut s, &gossip_handshake(&signed, &genesis, false)).await;
                    let _ = recv_frame(&mut s).await;
                    keep.push(s);
                }
            }
        }
        // Hold the connections for a while, then close.
        let _ = ctx.sleep(time::Duration::seconds(20)).await;
        drop(keep);
    });

    // --- director + oracle -------------------------------------------------------------------
    let mut d = Director::new(seed, sched.clone(), clock.clone());
    d.tick_pct = 3;
    d.tick_sizes = vec![5_000_000, 200_000_000, 2_000_000_000];
    d.max_steps = 400_000;
    {
        let h = hist.clone();
        let n = net.clone();
        d.progress = Some(Box::new(move || h.lock().unwrap().log.seq() + n.0.lock().unwrap().conns.len() as u64));
    }
    let mut seen: BTreeMap<&'static str, BTreeSet<String>> = BTreeMap::new();
    let (hist_o, net_o, vslot_o) = (hist.clone(), net.clone(), victim_slot.clone());
    let sched_o = sched.clone();
    // Has the victim dropped its end of the connection?
    let victim_end_open = |c: &crate::kit::simnet::ConnInfo, victim_is_server: bool| -> bool {
        let (a, b) = (c.tx_c2s.lock().unwrap(), c.tx_s2c.lock().unwrap());
        if victim_is_server { !(b.write_closed && a.read_closed) } else { !(a.write_closed && b.read_closed) }
    };
    let static_in_txt: BTreeSet<String> = static_in.iter().map(|k| format!("{k:?}")).collect();
    let mut observe = |quiescent: bool| {
                if !hist_o.lock().unwrap().violations.is_empty() {
                    return;
                }
                let Some(vnet) = vslot_o.lock().unwrap().clone() else { return };
                let extra_adv_keys = adv_extra.lock().unwrap().clone();
                let v = network::verif::view(&vnet);
                let pools: [(&'static str, Vec<String>, bool, bool); 4] = [
                    ("consensus_inbound", v.consensus_inbound.iter().map(|k| format!("{k:?}")).collect(), true, true),
                    ("consensus_outbound", v.consensus_outbound.iter().map(|k| format!("{k:?}")).collect(), false, true),
                    ("gossip_inbound", v.gossip_inbound.iter().map(|k| format!("{k:?}")).collect(), true, false),
                    ("gossip_outbound", v.gossip_outbound.iter().map(|k| format!("{k:?}")).collect(), false, false),
                ];
                let conns = net_o.conns();
                // Nothing is runnable: every handshake and every refusal that can happen without
                // the clock moving has happened, pools and connections are consistent.
                if quiescent {
                    hist_o.probe("quiescent_point_checked");
                    // One admitted connection per identity (gossip inbound, adversary's dials).
                    let mut admitted: BTreeMap<String, Vec<u64>> = BTreeMap::new();
                    for (conn, key) in claims.lock().unwrap().iter() {
                        if conns.iter().any(|c| c.id == *conn && victim_end_open(c, true)) {
                            admitted.entry(key.clone()).or_default().push(*conn);
                        }
                    }
                    for (key, cs) in &admitted {
                        if cs.len() > 1 {
                            hist_o.violation("C12", "several_connections_for_one_identity", format!("the victim keeps {} inbound gossip connections {cs:?} open for identity {key} (handshake accepted on each)", cs.len()));
                        }
                    }
                    let extra = admitted.keys().filter(|k| !static_in_txt.contains(*k)).count();
                    if extra > dyn_limit {
                        hist_o.violation("C12", "inbound_quota_exceeded", format!("{extra} non-configured gossip identities hold an admitted connection, dynamic_inbound_limit is {dyn_limit}"));
                    }
                }
                // Every inbound pool entry names the connection holding it: the actor at the far
                // end of that very connection must hold the secret of the attributed identity.
                let by_conn: Vec<(&'static str, String, SocketAddr)> = v
                    .consensus_inbound_addrs
                    .iter()
                    .map(|(k, a)| ("consensus_inbound", format!("{k:?}"), *a))
                    .chain(v.gossip_inbound_addrs.iter().map(|(k, a)| ("gossip_inbound", format!("{k:?}"), *a)))
                    .collect();
                for (pool, k, peer_addr) in by_conn {
                    let Some(c) = conns.iter().find(|c| c.server == "victim" && c.client_local == peer_addr) else {
                        hist_o.violation("C12", "pool_entry_without_connection", format!("{pool} holds {k} for peer address {peer_addr}, which is no connection made to the victim"));
                        continue;
                    };
                    let far = c.client.as_str();
                    if !(holds.get(far).is_some_and(|h| h.contains(&k)) || (far == "adv" && extra_adv_keys.contains(&k))) {
                        hist_o.violation(
                            "C12",
                            "connection_attributed_to_unproven_identity",
                            format!("{pool} of the victim attributes connection {} (from {peer_addr}, far end operated by {far}) to {k}, whose secret {far} does not hold", c.id),
                        );
                    }
                }
                for (pool, keys, inbound, validator_pool) in pools {
                    if quiescent {
                        // Every identity in a pool is backed by a connection which the victim
                        // still holds and whose far end can prove that identity.
                        for k in &keys {
                            let backed = conns.iter().any(|c| {
                                let (far, ours_is_server) = if inbound { (&c.client, true) } else { (&c.server, false) };
                                let victim_side = if inbound { c.server == "victim" } else { c.client == "victim" };
                                victim_side
                                    && victim_end_open(c, ours_is_server)
                                    && (holds.get(far.as_str()).is_some_and(|h| h.contains(k)) || (far == "adv" && extra_adv_keys.contains(k)))
                            });
                            if !backed {
                                hist_o.violation(
                                    "C12",
                                    "pool_entry_without_proven_connection",
                                    format!("{pool} of the victim contains {k}, but none of the connections the victim still holds in that direction has a far end holding that key's secret"),
                                );
                            }
                        }
                    }
                    let set: BTreeSet<String> = keys.iter().cloned().collect();
                    if set.len() != keys.len() {
                        hist_o.violation("C12", "duplicate_identity_in_pool", format!("{pool}: {keys:?}"));
                    }
                    let known = seen.entry(pool).or_default();
                    for k in &set {
                        if known.contains(k) {
                            continue;
                        }
                        hist_o.rec(Ev::Pool { pool, keys: keys.clone() });
                        // Far-end actors of the connections made in this direction (a connection may
                        // already be half-closed by the time its pool entry is observed).
                        let actors: BTreeSet<String> = conns
                            .iter()
                            .filter_map(|c| if inbound { (c.server == "victim").then(|| c.client.clone()) } else { (c.client == "victim").then(|| c.server.clone()) })
                            .collect();
                        let legit = actors.iter().any(|a| {
                            holds.get(a.as_str()).is_some_and(|h| h.contains(k)) || (a == "adv" && extra_adv_keys.contains(k))
                        });
                        if !legit {
                            hist_o.violation(
                                "C12",
                                "connection_attributed_to_unproven_identity",
                                format!("{pool} of the victim now contains {k}, but no connection in that direction ever had a far end holding that key's secret (far-end actors: {actors:?})"),
                            );
                        }
                        if validator_pool && !committee_keys.contains(k) {
                            hist_o.violation("C12", "outsider_on_validator_network", format!("{pool} contains {k}, which is not a committee member"));
                        }
                    }
                    *known = set.clone();
                    if pool == "gossip_inbound" {
                        let extra = set.iter().filter(|k| !static_in_txt.contains(*k)).count();
                        if extra > dyn_limit {
                            hist_o.violation("C12", "inbound_quota_exceeded", format!("{extra} non-configured gossip peers connected, dynamic_inbound_limit is {dyn_limit}"));
                        }
                    }
                }
    };
    // Every few dozen steps the director lets the system run dry without moving the clock
    // (a quiescent point), where pools and connections must be consistent.
    loop {
        let mut budget = 60;
        let e = d.drive(|| { budget -= 1; adversary.is_finished() || budget < 0 }, |_| observe(sched_o.ready_len() == 0)).await;
        if adversary.is_finished() || !matches!(e, crate::prim::DriveEnd::Done) {
            break;
        }
        let pct = d.tick_pct;
        d.tick_pct = 0;
        let mut cap = 5000;
        let _ = d.drive(|| { cap -= 1; sched_o.ready_len() == 0 || cap < 0 }, |_| observe(false)).await;
        d.tick_pct = pct;
        if sched_o.ready_len() == 0 {
            observe(true);
        }
    }
    let pools_seen: usize = seen.values().map(|s| s.len()).sum();
    let entries_ever = hist.lock().unwrap().events.iter().filter(|(_, e)| matches!(e, Ev::Pool { .. })).count();
    let _ = kill_v.send(());
    let mut handles = vec![hv];
    if let Some((_, k, h)) = h1 {
        let _ = k.send(());
        handles.push(h);
    }
    d.tick_sizes = vec![10_000_000_000];
    let _ = d.drive(|| handles.iter().all(|h| h.is_finished()), |_| {}).await;
    d.drain().await;
    for l in net.0.lock().unwrap().log.iter() {
        hist.note(format!("net: {l}"));
    }
    hist.fault(&format!("strategy_{strategy}"));
    if entries_ever > 0 {
        hist.probe("identity_admitted");
    }
    let _ = pools_seen;
    let he = if sched.live() != 0 && hist.lock().unwrap().violations.is_empty() { Some(format!("{} tasks alive", sched.live())) } else { None };
    finish(seed, "admission", &sched, &hist, d.sim_ns, true, vec![kit::mix(strategy as u64, entries_ever.min(5) as u64)],
        json!({"strategy": strategy, "honest_peer": needs_h1, "dynamic_inbound_limit": dyn_limit, "pool_entries_observed": entries_ever, "connections": net.conns().len()}), he)
}
