//! E4 `nodesim`: whole `network::Network` nodes (accept loop, preface, noise, handshakes, pools,
//! mux, RPCs) over the simulated TCP seam (hook H2), with adversaries built from raw pieces.
pub mod admission;
pub mod cluster;
pub mod limits;
pub mod sync;

use std::rc::Rc;

use crate::{
    cli::CaseResult,
    kit::{self, run_sim, Sched},
    prim::policy_from,
};

pub fn run_case(mode: &str, seed: u64, keep_log: bool) -> (CaseResult, Vec<String>) {
    crate::kit::entropy::isolated(seed, || {
        let (mut r, log) = run_case_inner(mode, seed, keep_log);
        r.draws = crate::kit::tape::draws();
        (r, log)
    })
}

fn run_case_inner(mode: &str, seed: u64, keep_log: bool) -> (CaseResult, Vec<String>) {
    let mut rng = kit::stream(seed, "node-policy");
    let sched = Rc::new(Sched::new(seed, policy_from(&mut rng), false));
    kit::panics::take();
    let mode2 = mode.to_string();
    let ((mut res, log), rt) = run_sim(seed, sched.clone(), move |sched| async move {
        match mode2.as_str() {
            "admission" => admission::run(seed, sched, keep_log).await,
            "sync" => sync::run(seed, sched, keep_log).await,
            "cluster" => cluster::run(seed, sched, keep_log).await,
            "limits" => limits::run(seed, sched, keep_log).await,
            m => panic!("unknown node mode {m}"),
        }
    });
    zksync_concurrency::verif::net_shim::install_net(None);
    res.panics = kit::panics::take();
    if let Err(e) = rt {
        if res.violations.is_empty() && !res.probes.contains_key("step_budget_exhausted") {
            res.harness_error.get_or_insert(e);
        }
    }
    (res, log)
}
