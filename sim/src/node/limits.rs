//! C15 in situ: a whole `network::Network` node (victim) over simulated TCP and an adversary that
//! authenticates *properly* - as a committee member on the validator endpoint, as an ordinary
//! node on the gossip endpoint - and then, instead of the repo's clients, speaks through a raw
//! multiplexer with no limiter of its own which announces more streams than the victim allows and
//! fires `consensus`, `get_block`, `push_tx` and `ping` calls as fast as the protocol lets it.
//!
//! What the victim *starts serving* is observed behind the node, not on the wire (which is
//! encrypted): consensus requests where the replica would receive them (the harness holds the
//! receiving end of the node's consensus input channel and withholds acks like a busy replica),
//! `get_block` and `push_tx` requests where they reach the execution layer (`SimEngine`), pings
//! by the responses the adversary gets.  Per connection and RPC kind the number of requests started
//! within any window must stay within burst + T/refresh + 1 (+ the in-flight streams which may
//! have been reserved earlier), and the number of consensus requests waiting for their ack at the
//! same time within INFLIGHT - for the rates of *this node's configuration* (`Config.rpc`), which
//! is randomised per run.  This is the part of C15 the per-stream population (`pipe/rpc`: bare
//! `rpc::Service` on a pipe) cannot see: that every server of a real connection is built with the
//! rate configured for its RPC, and that the limits survive noise, mux and the real handlers.
use std::{collections::{HashMap, HashSet}, net::SocketAddr, rc::Rc, sync::{Arc, Mutex}};

use rand::Rng;
use serde_json::json;
use tokio::io::{AsyncReadExt, AsyncWriteExt};
use zksync_concurrency::{ctx::{self, channel}, limiter, net, oneshot, scope, time, verif::{net_shim, tokio_shim as gtokio}};
use zksync_consensus_bft as bft;
use zksync_consensus_crypto::ByteFmt;
use zksync_consensus_engine::EngineManager;
use zksync_consensus_network::{self as network, io::ConsensusReq, verif::{mux, noise, rpc}};
use zksync_consensus_roles::{node, validator::{self, v2}};

use crate::{
    bft::{engine::{NodeStore, SimEngine}, hub::Hub},
    cli::CaseResult,
    kit::{self, proto::{field_bytes, field_varint, framed}, simnet::{Net, TcpEnd}, Sched},
    prim::{finish, new_hist, store::make_chain, Director, HistExt, SharedHist},
};

#[derive(Debug, Clone)]
pub enum Ev {
    Note(String),
}

const ENC_NOISE: [u8; 2] = [0x0a, 0x00];
const EP_CONSENSUS: [u8; 2] = [0x0a, 0x00];
const EP_GOSSIP: [u8; 2] = [0x12, 0x00];

fn addr(port: u16) -> SocketAddr {
    format!("127.0.0.1:{port}").parse().unwrap()
}

async fn send_frame<S: tokio::io::AsyncWrite + Unpin>(s: &mut S, msg: &[u8]) -> bool {
    s.write_all(&framed(msg)).await.is_ok() && s.flush().await.is_ok()
}

async fn recv_frame<S: tokio::io::AsyncRead + Unpin>(s: &mut S) -> Option<Vec<u8>> {
    let mut len = [0u8; 4];
    s.read_exact(&mut len).await.ok()?;
    let n = u32::from_le_bytes(len) as usize;
    if n > 20_000 {
        return None;
    }
    let mut b = vec![0u8; n];
    s.read_exact(&mut b).await.ok()?;
    Some(b)
}

async fn preface_connect(ctx: &ctx::Ctx, mut tcp: TcpEnd, endpoint: &[u8]) -> Option<noise::Stream<TcpEnd>> {
    if !send_frame(&mut tcp, &ENC_NOISE).await {
        return None;
    }
    let mut s = noise::Stream::client_handshake(ctx, tcp).await.ok()?;
    if !send_frame(&mut s, endpoint).await {
        return None;
    }
    Some(s)
}

/// Dials the victim, retrying while its listener is not up yet.
async fn dial(ctx: &ctx::Ctx, net: &Net) -> Option<TcpEnd> {
    for _ in 0..200 {
        if let Ok(t) = net.dial_as(addr(3000), "adv") {
            return Some(t);
        }
        ctx.sleep(time::Duration::milliseconds(20)).await.ok()?;
    }
    None
}

/// One greedy caller: opens a stream, sends the request, reads the whole response; for ever.
async fn caller(ctx: &ctx::Ctx, q: mux::StreamQueue, reqs: Vec<Vec<u8>>, sit_ms: i64, done: Arc<Mutex<Vec<i128>>>, opened: Arc<Mutex<Vec<i128>>>, clock: ctx::ManualClock, t0: time::Instant) {
    let mut k = 0usize;
    loop {
        let Ok(mut st) = q.open(ctx).await else { break };
        opened.lock().unwrap().push((clock.now() - t0).whole_nanoseconds());
        if sit_ms > 0 && ctx.sleep(time::Duration::milliseconds(sit_ms)).await.is_err() {
            break;
        }
        let req = &reqs[k % reqs.len()];
        k += 1;
        let mut ok = st.write.write_all(ctx, &(req.len() as u32).to_le_bytes()).await.is_ok();
        ok = ok && st.write.write_all(ctx, req).await.is_ok();
        ok = ok && st.write.flush(ctx).await.is_ok();
        drop(st.write);
        let mut len = [0u8; 4];
        ok = ok && st.read.read_exact(ctx, &mut len).await.is_ok_and(|n| n == 4);
        if ok {
            let n = u32::from_le_bytes(len) as usize;
            let mut body = vec![0u8; n.min(1 << 20)];
            ok = st.read.read_exact(ctx, &mut body).await.is_ok();
        }
        if ok {
            done.lock().unwrap().push((clock.now() - t0).whole_nanoseconds());
        }
        if !ctx.is_active() {
            break;
        }
        if !ok && ctx.sleep(time::Duration::milliseconds(1)).await.is_err() {
            break;
        }
    }
}

fn pick_rate(rng: &mut kit::SimRng) -> limiter::Rate {
    limiter::Rate {
        burst: [1usize, 2, 3, 10][rng.gen_range(0..4)],
        refresh: time::Duration::milliseconds([2i64, 20, 300, 1000, 5000][rng.gen_range(0..5)]),
    }
}

/// The oracle: `n` starts within `t` need `n <= burst + t/refresh + 1 + slack`.
fn window_check(hist: &SharedHist<Ev>, times: &[i128], rate: limiter::Rate, slack: i128, what: &str, class: &str) {
    let r = rate.refresh.whole_nanoseconds().max(1);
    let b = rate.burst as i128;
    for i in 0..times.len() {
        for j in i..times.len() {
            let n = (j - i + 1) as i128;
            let t = times[j] - times[i];
            let allowed = b + t / r + 1 + slack;
            if n > allowed {
                hist.violation(
                    "C15",
                    class,
                    format!("the node started serving {n} {what} requests of one connection within {t} ns; configured rate: burst {b}, refresh {r} ns: bound burst + T/refresh + 1 + {slack} in-flight = {allowed}"),
                );
                return;
            }
        }
    }
}

pub async fn run(seed: u64, sched: Rc<Sched>, keep_log: bool) -> (CaseResult, Vec<String>) {
    let mut rng = kit::stream(seed, "limits");
    let panics0 = kit::panics::count();
    let hist: SharedHist<Ev> = new_hist(keep_log);
    let clock = ctx::ManualClock::new();
    let t0 = clock.now();
    let net = Net::new(seed);
    net.0.lock().unwrap().fragment = rng.gen_range(0..100) < 20;
    net_shim::install_net(Some(net.handle()));
    let nval = rng.gen_range(3..6usize);
    let len = rng.gen_range(3..9u64);
    let chain = Arc::new(make_chain(&mut rng, nval, 0, 0, len));
    let genesis = chain.committee.genesis.clone();
    let hub = Arc::new(Hub::new(chain.committee.clone(), kit::stream(seed, "pad"), 0, false));
    // The victim is validator 0 and holds the whole chain; the adversary is validator 1 (a
    // committee member, possibly Byzantine) and an ordinary gossip node.
    let victim_node_key: node::SecretKey = rng.gen();
    let adv_node_key: node::SecretKey = rng.gen();
    let vb = chain.committee.keys[1].clone();
    let rpc_cfg = network::RpcConfig {
        push_validator_addrs_rate: pick_rate(&mut rng),
        push_block_store_state_rate: pick_rate(&mut rng),
        push_tx_rate: pick_rate(&mut rng),
        get_block_rate: pick_rate(&mut rng),
        get_block_timeout: Some(time::Duration::seconds(10)),
        consensus_rate: pick_rate(&mut rng),
    };
    hist.note(format!(
        "limits: consensus {:?}, get_block {:?}, push_tx {:?}; chain of {len} blocks",
        rpc_cfg.consensus_rate, rpc_cfg.get_block_rate, rpc_cfg.push_tx_rate
    ));
    let store = {
        let mut st = NodeStore::new(validator::BlockNumber(0), true);
        st.disk.blocks = (0..len).map(|n| chain.blocks[&n].clone()).collect();
        Arc::new(Mutex::new(st))
    };
    net.0.lock().unwrap().actors.insert(1, "victim".to_string());
    let engine = SimEngine::new_incarnation(0, genesis.clone(), store.clone(), hub.clone());
    let cfg = network::Config {
        build_version: None,
        server_addr: net::tcp::ListenerAddr::new(addr(3000)),
        public_addr: addr(3000).into(),
        gossip: network::GossipConfig {
            key: victim_node_key,
            dynamic_inbound_limit: 2,
            static_inbound: HashSet::new(),
            static_outbound: HashMap::new(),
        },
        validator_key: Some(chain.committee.keys[0].clone()),
        max_block_size: 100_000,
        max_tx_size: 10_000,
        ping_timeout: None,
        tcp_accept_rate: limiter::Rate::INF,
        rpc: rpc_cfg.clone(),
        max_block_queue_size: 10,
    };
    // Consensus requests as the replica would see them: (arrival time, ack).
    let arrivals: Arc<Mutex<Vec<i128>>> = Arc::default();
    let held: Arc<Mutex<Vec<(i128, oneshot::Sender<()>)>>> = Arc::default();
    let hold_ms: Vec<i64> = (0..8).map(|_| [0i64, 0, 1, 40, 700, 4000][rng.gen_range(0..6)]).collect();
    let up: Arc<Mutex<bool>> = Arc::default();
    let (kill_v, kill_v_recv) = oneshot::channel::<()>();
    let victim = {
        let (clock, arrivals, held, up) = (clock.clone(), arrivals.clone(), held.clone(), up.clone());
        sched.set_spawn_tag(1);
        let h = gtokio::spawn(async move {
            let root = ctx::test_root(&clock);
            let ctx = &root;
            let Ok((mgr, runner)) = EngineManager::new(ctx, Box::new(engine), time::Duration::seconds(1)).await else { return };
            let (cons_send, mut cons_recv) = bft::create_input_channel();
            let (_out_send, out_recv) = channel::unbounded();
            let Ok((_net, net_runner)) = network::Network::new(cfg, mgr, Some(validator::EpochNumber(0)), cons_send, out_recv) else { return };
            *up.lock().unwrap() = true;
            let _: anyhow::Result<()> = scope::run!(ctx, |ctx, s| async move {
                s.spawn_bg(async move { runner.run(ctx).await });
                s.spawn_bg(async move { net_runner.run(ctx, false).await });
                // The "replica": takes every request at once, acks it when the harness says so.
                s.spawn_bg(async move {
                    let mut k = 0usize;
                    while let Ok(ConsensusReq { ack, .. }) = cons_recv.recv(ctx).await {
                        let now = (clock.now() - t0).whole_nanoseconds();
                        arrivals.lock().unwrap().push(now);
                        k += 1;
                        held.lock().unwrap().push((now + hold_ms[k % hold_ms.len()] as i128 * 1_000_000, ack));
                    }
                    Ok(())
                });
                let _ = kill_v_recv.recv_or_disconnected(ctx).await;
                Ok(())
            })
            .await;
        });
        sched.set_spawn_tag(0);
        h
    };

    // --- the adversary -------------------------------------------------------------------------
    let pings: Arc<Mutex<Vec<i128>>> = Arc::default();
    // Times at which the adversary's `open()` returned, per RPC: consensus, get_block, push_tx, ping.
    let opened_all: Vec<Arc<Mutex<Vec<i128>>>> = (0..4).map(|_| Arc::default()).collect();
    let sessions_at: Arc<Mutex<Option<i128>>> = Arc::default();
    let gb_done: Arc<Mutex<Vec<i128>>> = Arc::default();
    let tx_done: Arc<Mutex<Vec<i128>>> = Arc::default();
    let cons_done: Arc<Mutex<Vec<i128>>> = Arc::default();
    let (kill_a, kill_a_recv) = oneshot::channel::<()>();
    let adversary = {
        let (clock, net2, up) = (clock.clone(), net.clone(), up.clone());
        let (pings, gb_done, tx_done, cons_done) = (pings.clone(), gb_done.clone(), tx_done.clone(), cons_done.clone());
        let ghash = genesis.hash();
        let mut arng = kit::stream(seed, "limits-adv");
        let hist_a = hist.clone();
        let sessions_at2 = sessions_at.clone();
        let opened = opened_all.clone();
        // Requests, prepared up front (BLS signing is slow).
        let cons_reqs: Vec<Vec<u8>> = (0..40u64)
            .map(|k| {
                let m = if k % 2 == 0 {
                    v2::ChonkyMsg::ReplicaTimeout(v2::ReplicaTimeout {
                        view: v2::View { genesis: ghash, epoch: validator::EpochNumber(0), number: validator::ViewNumber(1 + k) },
                        high_vote: None,
                        high_qc: None,
                    })
                } else {
                    v2::ChonkyMsg::ReplicaCommit(v2::ReplicaCommit {
                        view: v2::View { genesis: ghash, epoch: validator::EpochNumber(0), number: validator::ViewNumber(1 + k) },
                        proposal: v2::BlockHeader { number: validator::BlockNumber(len), payload: validator::Payload(vec![k as u8]).hash() },
                    })
                };
                rpc::encode_consensus_req(&vb.sign_msg(validator::ConsensusMsg::V2(m)))
            })
            .collect();
        let gb_reqs: Vec<Vec<u8>> = (0..len).map(|n| rpc::encode_get_block_req(validator::BlockNumber(n))).collect();
        let tx_reqs: Vec<Vec<u8>> = (0..16u8).map(|k| rpc::encode_push_tx_req(vec![k; 5 + k as usize])).collect();
        gtokio::spawn(async move {
            let root = ctx::test_root(&clock);
            let _: Result<(), ()> = scope::run!(&root, |ctx, s| async move {
                while !*up.lock().unwrap() {
                    if ctx.sleep(time::Duration::milliseconds(10)).await.is_err() {
                        return Ok(());
                    }
                }
                let _ = ctx.sleep(time::Duration::milliseconds(20)).await;
                // Validator endpoint: genuine handshake as committee member 1.
                let cs = async {
                    let mut s = preface_connect(ctx, dial(ctx, &net2).await?, &EP_CONSENSUS).await?;
                    let sid = node::SessionId(s.id().encode());
                    let mut m = vec![];
                    field_bytes(1, &zksync_protobuf::encode(&vb.sign_msg(sid)), &mut m);
                    field_bytes(2, &zksync_protobuf::encode(&ghash), &mut m);
                    send_frame(&mut s, &m).await;
                    recv_frame(&mut s).await?;
                    Some(s)
                }
                .await;
                // Gossip endpoint: genuine handshake as an ordinary node.
                let gs = async {
                    let mut s = preface_connect(ctx, dial(ctx, &net2).await?, &EP_GOSSIP).await?;
                    let sid = node::SessionId(s.id().encode());
                    let mut m = vec![];
                    field_bytes(1, &zksync_protobuf::encode(&adv_node_key.sign_msg(sid)), &mut m);
                    field_varint(2, 0, &mut m);
                    field_bytes(3, &zksync_protobuf::encode(&ghash), &mut m);
                    send_frame(&mut s, &m).await;
                    recv_frame(&mut s).await?;
                    Some(s)
                }
                .await;
                hist_a.note(format!("adv: consensus session {}, gossip session {}", cs.is_some(), gs.is_some()));
                *sessions_at2.lock().unwrap() = Some((clock.now() - t0).whole_nanoseconds());
                // Sometimes the client leaves the sessions idle for a while before it starts calling
                // (the servers' OPEN offers pile up meanwhile).
                let idle_ms = [0i64, 0, 700, 20_000][arng.gen_range(0..4)];
                if idle_ms > 0 {
                    let _ = ctx.sleep(time::Duration::milliseconds(idle_ms)).await;
                }
                let many = 12u32;
                if let Some(cs) = cs {
                    let cq = mux::StreamQueue::new(ctx, many, limiter::Rate::INF);
                    let pq = mux::StreamQueue::new(ctx, 4, limiter::Rate::INF);
                    let m = mux::Mux::new(mux::Config::rpc_default()).accept(rpc::capability_consensus(), &cq).accept(rpc::capability_ping(), &pq);
                    s.spawn_bg(async move {
                        let _ = m.run(ctx, cs).await;
                        Ok(())
                    });
                    for _ in 0..arng.gen_range(1..7usize) {
                        let sit = [0i64, 0, 0, 3, 400][arng.gen_range(0..5)];
                        s.spawn_bg({
                            let (q, r, d, o, c) = (cq.clone(), cons_reqs.clone(), cons_done.clone(), opened[0].clone(), clock.clone());
                            async move {
                                caller(ctx, q, r, sit, d, o, c, t0).await;
                                Ok(())
                            }
                        });
                    }
                    s.spawn_bg({
                        let (d, o, c) = (pings.clone(), opened[3].clone(), clock.clone());
                        async move {
                            caller(ctx, pq, vec![rpc::encode_ping_req([9u8; 32])], 0, d, o, c, t0).await;
                            Ok(())
                        }
                    });
                }
                if let Some(gs) = gs {
                    let gq = mux::StreamQueue::new(ctx, many, limiter::Rate::INF);
                    let tq = mux::StreamQueue::new(ctx, 4, limiter::Rate::INF);
                    let sq = mux::StreamQueue::new(ctx, 2, limiter::Rate::INF);
                    let extreme_states = arng.gen_range(0..100) < 50;
                    // The adversary also *serves* get_block (so that the node's fetcher consults what
                    // this peer announced), without ever answering.
                    let vq = mux::StreamQueue::new(ctx, 1, limiter::Rate::INF);
                    let m = mux::Mux::new(mux::Config::rpc_default())
                        .accept(rpc::capability_get_block(), &gq)
                        .accept(rpc::capability_push_tx(), &tq)
                        .accept(rpc::capability_push_block_store_state(), &sq)
                        .connect(rpc::capability_get_block(), &vq);
                    s.spawn_bg(async move {
                        while let Ok(mut st) = vq.open(ctx).await {
                            let mut len = [0u8; 4];
                            let _ = st.read.read_exact(ctx, &mut len).await;
                            if ctx.sleep(time::Duration::seconds(2)).await.is_err() {
                                break;
                            }
                        }
                        Ok(())
                    });
                    s.spawn_bg(async move {
                        let _ = m.run(ctx, gs).await;
                        Ok(())
                    });
                    for _ in 0..arng.gen_range(1..7usize) {
                        let sit = [0i64, 0, 0, 3, 400][arng.gen_range(0..5)];
                        s.spawn_bg({
                            let (q, r, d, o, c) = (gq.clone(), gb_reqs.clone(), gb_done.clone(), opened[1].clone(), clock.clone());
                            async move {
                                caller(ctx, q, r, sit, d, o, c, t0).await;
                                Ok(())
                            }
                        });
                    }
                    // Block-store announcements with extreme and inconsistent ranges (C10: no input
                    // may crash the node - the fetcher consults the announced range of every peer).
                    if extreme_states {
                        s.spawn_bg({
                            let (q, d, o, c) = (sq.clone(), Arc::new(Mutex::new(vec![])), Arc::new(Mutex::new(vec![])), clock.clone());
                            let reqs: Vec<Vec<u8>> = [
                                (0u64, Some(u64::MAX)), (0, Some(u64::MAX - 1)), (u64::MAX, None), (u64::MAX, Some(u64::MAX)), (7, Some(3)), (0, None), (1, Some(0)),
                            ]
                            .iter()
                            .map(|(first, last)| {
                                rpc::encode_push_block_store_state_req(zksync_consensus_engine::BlockStoreState {
                                    first: validator::BlockNumber(*first),
                                    last: last.map(|n| zksync_consensus_engine::Last::PreGenesis(validator::BlockNumber(n))),
                                })
                            })
                            .collect();
                            async move {
                                caller(ctx, q, reqs, 0, d, o, c, t0).await;
                                Ok(())
                            }
                        });
                    }
                    for _ in 0..arng.gen_range(1..3usize) {
                        s.spawn_bg({
                            let (q, r, d, o, c) = (tq.clone(), tx_reqs.clone(), tx_done.clone(), opened[2].clone(), clock.clone());
                            async move {
                                caller(ctx, q, r, 0, d, o, c, t0).await;
                                Ok(())
                            }
                        });
                    }
                }
                let _ = kill_a_recv.recv_or_disconnected(ctx).await;
                Ok(())
            })
            .await;
        })
    };

    let mut d = Director::new(seed, sched.clone(), clock.clone());
    d.tick_pct = rng.gen_range(2..15);
    d.tick_sizes = vec![200_000, 3_000_000, 60_000_000, 900_000_000];
    d.max_steps = 1_500_000;
    // The run lasts a fixed amount of simulated time or a number of served requests.
    let horizon_ns: i128 = [30i128, 120, 600][rng.gen_range(0..3)] * 1_000_000_000;
    let inflight_consensus = rpc::inflight_consensus() as usize;
    let (mut gb_times, mut tx_times): (Vec<i128>, Vec<i128>) = (vec![], vec![]);
    let (mut gb_seen, mut tx_seen) = (0u64, 0u64);
    let mut too_many = false;
    let clock_o = clock.clone();
    let (held_o, store_o, hist_o) = (held.clone(), store.clone(), hist.clone());
    let total = |a: &Arc<Mutex<Vec<i128>>>| a.lock().unwrap().len();
    let (a2, g2, t2, p2) = (arrivals.clone(), gb_done.clone(), tx_done.clone(), pings.clone());
    {
        let (a, s) = (arrivals.clone(), store.clone());
        d.progress = Some(Box::new(move || {
            let n = a.lock().unwrap().len() as u64;
            let st = s.lock().unwrap();
            n + st.get_block_calls + st.push_tx_calls
        }));
    }
    let _ = d
        .drive(
            || sessions_at.lock().unwrap().is_some_and(|t| (clock_o.now() - t0).whole_nanoseconds() - t > horizon_ns) || (clock_o.now() - t0).whole_nanoseconds() > 3000 * 1_000_000_000 || total(&a2) + total(&g2) + total(&t2) + total(&p2) > 300,
            |_| {
                let now = (clock_o.now() - t0).whole_nanoseconds();
                // Requests which reached the execution layer since the last step.
                let (g, t) = {
                    let s = store_o.lock().unwrap();
                    (s.get_block_calls, s.push_tx_calls)
                };
                for _ in gb_seen..g {
                    gb_times.push(now);
                }
                for _ in tx_seen..t {
                    tx_times.push(now);
                }
                gb_seen = g;
                tx_seen = t;
                // Consensus requests waiting for their ack.
                let mut h = held_o.lock().unwrap();
                if h.len() > inflight_consensus && !too_many {
                    too_many = true;
                    hist_o.violation("C15", "too_many_concurrent_requests_in_situ", format!("{} consensus requests of one connection wait for the replica's ack at the same time, INFLIGHT is {inflight_consensus}", h.len()));
                }
                let mut i = 0;
                while i < h.len() {
                    if h[i].0 <= now {
                        let (_, ack) = h.remove(i);
                        let _ = ack.send(());
                    } else {
                        i += 1;
                    }
                }
            },
        )
        .await;
    // --- oracles over the recorded times -------------------------------------------------------
    let cons_times = arrivals.lock().unwrap().clone();
    hist.note(format!("requests started (ms): consensus {:?} get_block {:?} push_tx {:?}", cons_times.iter().map(|x| x / 1_000_000).collect::<Vec<_>>(), gb_times.iter().map(|x| x / 1_000_000).collect::<Vec<_>>(), tx_times.iter().map(|x| x / 1_000_000).collect::<Vec<_>>()));
    window_check(&hist, &cons_times, rpc_cfg.consensus_rate, rpc::inflight_consensus() as i128, "consensus", "rate_exceeded_in_situ");
    window_check(&hist, &gb_times, rpc_cfg.get_block_rate, rpc::inflight_get_block() as i128, "get_block", "rate_exceeded_in_situ");
    window_check(&hist, &tx_times, rpc_cfg.push_tx_rate, rpc::inflight_push_tx() as i128, "push_tx", "rate_exceeded_in_situ");
    // Streams the node let the peer open (the open handshake completed on the peer's side): the
    // permit of an OPEN is reserved until the handshake completes, so offers made while the peer
    // was idle and offers made afterwards share one budget.
    // Bound: the OPEN offers the node makes obey burst + T/refresh + 1 (that is the limiter's
    // contract on grants, checked frame by frame in the `pipe/rpc` population); the peer may answer
    // at the beginning of a window the offers it left unanswered before, and those hold reserved
    // permits, of which there are never more than min(INFLIGHT, burst).
    let kinds: [(&str, limiter::Rate, u32); 4] = [
        ("consensus", rpc_cfg.consensus_rate, rpc::inflight_consensus()),
        ("get_block", rpc_cfg.get_block_rate, rpc::inflight_get_block()),
        ("push_tx", rpc_cfg.push_tx_rate, rpc::inflight_push_tx()),
        ("ping", rpc::ping_rate(), rpc::inflight_ping()),
    ];
    for (k, (what, rate, inflight)) in kinds.iter().enumerate() {
        let mut t = opened_all[k].lock().unwrap().clone();
        t.sort();
        hist.note(format!("{what}: streams opened by the peer at (ms) {:?}", t.iter().map(|x| x / 1_000_000).collect::<Vec<_>>()));
        window_check(&hist, &t, *rate, (*inflight as i128).min(rate.burst as i128), &format!("{what} streams opened"), "open_rate_exceeded_in_situ");
    }
    let ping_times = pings.lock().unwrap().clone();
    window_check(&hist, &ping_times, rpc::ping_rate(), rpc::inflight_ping() as i128, "ping", "rate_exceeded_in_situ");
    if cons_times.len() >= 3 {
        hist.probe("consensus_requests_served_in_situ");
    }
    if gb_times.len() >= 3 {
        hist.probe("get_block_requests_served_in_situ");
    }
    if tx_times.len() >= 3 {
        hist.probe("push_tx_requests_served_in_situ");
    }
    if ping_times.len() >= 2 {
        hist.probe("pings_served_in_situ");
    }
    let limited = |times: &[i128], r: limiter::Rate| times.len() as i128 > r.burst as i128 + 1;
    if limited(&cons_times, rpc_cfg.consensus_rate) || limited(&gb_times, rpc_cfg.get_block_rate) || limited(&tx_times, rpc_cfg.push_tx_rate) {
        hist.probe("in_situ_limiter_refilled");
    }
    hist.fault("greedy_authenticated_peer");
    for p in kit::panics::since(panics0) {
        if !p.contains("one of the tasks panicked") {
            hist.violation("C10", "node_panic", format!("in situ, fed by an authenticated peer: {p}"));
        }
    }
    // Shut down.
    held.lock().unwrap().clear();
    let _ = kill_a.send(());
    let _ = kill_v.send(());
    d.tick_sizes = vec![10_000_000_000];
    d.progress = None;
    let _ = d.drive(|| victim.is_finished() && adversary.is_finished(), |_| {}).await;
    d.drain().await;
    for v in hub.inner.lock().unwrap().violations.clone() {
        hist.violation(&v.property, &v.class, v.detail.clone());
    }
    if keep_log {
        for l in net.0.lock().unwrap().log.iter() {
            hist.note(format!("net: {l}"));
        }
    }
    let served = cons_times.len() + gb_times.len() + tx_times.len() + ping_times.len();
    let he = if sched.live() != 0 && hist.lock().unwrap().violations.is_empty() { Some(format!("{} tasks alive", sched.live())) } else { None };
    finish(
        seed,
        "limits",
        &sched,
        &hist,
        d.sim_ns,
        served >= 4,
        vec![kit::mix(cons_times.len().min(30) as u64, kit::mix(gb_times.len().min(30) as u64, tx_times.len().min(30) as u64))],
        json!({
            "consensus_rate": format!("{:?}", rpc_cfg.consensus_rate), "get_block_rate": format!("{:?}", rpc_cfg.get_block_rate), "push_tx_rate": format!("{:?}", rpc_cfg.push_tx_rate),
            "consensus_started": cons_times.len(), "get_block_started": gb_times.len(), "push_tx_started": tx_times.len(), "pings_answered": ping_times.len(),
            "calls_completed": {"consensus": cons_done.lock().unwrap().len(), "get_block": gb_done.lock().unwrap().len(), "push_tx": tx_done.lock().unwrap().len()},
            "simulated_ms": d.sim_ns / 1_000_000,
        }),
        he,
    )
}
