//! C19 / C08 in situ: whole `network::Network` nodes over simulated TCP.  One or two *sources*
//! hold a chain of certified blocks, a *victim* with an empty store has them as static outbound
//! gossip peers and must fetch the chain through the real path: block-store-state gossip ->
//! block fetcher -> fetch queue -> per-connection `get_block` RPC -> `EngineManager::queue_block`
//! (verification) -> execution layer.
//!
//! Faults while the chain is being fetched: a source serves a block whose payload was altered
//! (certificate intact), a source's storage fails a read (empty response), connections are reset,
//! the victim's persistence lags, the clock jumps.
//!
//! Oracles: the victim's store is at all times a prefix of the genuine chain (nothing altered is
//! ever stored, no gap); every request stays alive until its block is stored: once faults stop
//! the victim holds the whole chain within a bounded amount of simulated time (a request which
//! was dropped or marked complete without the block being stored shows as a block that is never
//! fetched again).
use std::{collections::{HashMap, HashSet}, net::SocketAddr, rc::Rc, sync::{Arc, Mutex}};

use rand::Rng;
use serde_json::json;
use zksync_concurrency::{ctx::{self, channel}, limiter, net, oneshot, scope, time, verif::{net_shim, tokio_shim as gtokio}};
use zksync_consensus_bft as bft;
use zksync_consensus_engine::EngineManager;
use zksync_consensus_network as network;
use zksync_consensus_roles::{node, validator};

use crate::{
    bft::{engine::{NodeStore, SimEngine}, hub::Hub},
    cli::CaseResult,
    kit::{self, simnet::Net, Sched},
    prim::{finish, new_hist, store::make_chain, Director, DriveEnd, HistExt, SharedHist},
};

#[derive(Debug, Clone)]
pub enum Ev {
    Note(String),
    Stored { next: u64, t_ms: i128 },
}

fn addr(port: u16) -> SocketAddr {
    format!("127.0.0.1:{port}").parse().unwrap()
}

pub(crate) struct NodeSpec {
    pub name: &'static str,
    pub tag: u64,
    pub idx: usize,
    pub key: node::SecretKey,
    pub port: u16,
    pub static_inbound: HashSet<node::PublicKey>,
    pub static_outbound: HashMap<node::PublicKey, net::Host>,
    pub dynamic_inbound_limit: usize,
    pub max_block_queue_size: usize,
}

#[allow(clippy::type_complexity)]
pub(crate) fn start_node(
    spec: NodeSpec,
    genesis: validator::Genesis,
    store: Arc<Mutex<NodeStore>>,
    hub: &Arc<Hub>,
    clock: &ctx::ManualClock,
    sched: &Sched,
    net: &Net,
) -> (Arc<Mutex<Option<Arc<network::Network>>>>, oneshot::Sender<()>, tokio::task::JoinHandle<()>) {
    net.0.lock().unwrap().actors.insert(spec.tag, spec.name.to_string());
    let engine = SimEngine::new_incarnation(spec.idx, genesis, store, hub.clone());
    let cfg = network::Config {
        build_version: None,
        server_addr: net::tcp::ListenerAddr::new(addr(spec.port)),
        public_addr: addr(spec.port).into(),
        gossip: network::GossipConfig {
            key: spec.key,
            dynamic_inbound_limit: spec.dynamic_inbound_limit,
            static_inbound: spec.static_inbound,
            static_outbound: spec.static_outbound,
        },
        validator_key: None,
        max_block_size: 100_000,
        max_tx_size: 10_000,
        ping_timeout: None,
        tcp_accept_rate: limiter::Rate::INF,
        rpc: network::RpcConfig::default(),
        max_block_queue_size: spec.max_block_queue_size,
    };
    let slot: Arc<Mutex<Option<Arc<network::Network>>>> = Arc::default();
    let slot2 = slot.clone();
    let (kill, kill_recv) = oneshot::channel::<()>();
    let clock = clock.clone();
    sched.set_spawn_tag(spec.tag);
    let h = gtokio::spawn(async move {
        let root = ctx::test_root(&clock);
        let ctx = &root;
        let Ok((mgr, runner)) = EngineManager::new(ctx, Box::new(engine), time::Duration::seconds(1)).await else { return };
        let (cons_send, _cons_recv) = bft::create_input_channel();
        let (_out_send, out_recv) = channel::unbounded();
        let Ok((net, net_runner)) = network::Network::new(cfg, mgr, Some(validator::EpochNumber(0)), cons_send, out_recv) else { return };
        *slot2.lock().unwrap() = Some(net);
        let _: anyhow::Result<()> = scope::run!(ctx, |ctx, s| async move {
            s.spawn_bg(async move { runner.run(ctx).await });
            s.spawn_bg(async move { net_runner.run(ctx, false).await });
            let _ = kill_recv.recv_or_disconnected(ctx).await;
            Ok(())
        })
        .await;
    });
    sched.set_spawn_tag(0);
    (slot, kill, h)
}

pub async fn run(seed: u64, sched: Rc<Sched>, keep_log: bool) -> (CaseResult, Vec<String>) {
    let mut rng = kit::stream(seed, "sync");
    let hist: SharedHist<Ev> = new_hist(keep_log);
    let clock = ctx::ManualClock::new();
    let net = Net::new(seed);
    net.0.lock().unwrap().fragment = rng.gen_range(0..100) < 30;
    net_shim::install_net(Some(net.handle()));
    let nval = rng.gen_range(3..6usize);
    let len = rng.gen_range(2..14u64);
    let chain = Arc::new(make_chain(&mut rng, nval, 0, 0, len));
    let genesis = chain.committee.genesis.clone();
    let hub = Arc::new(Hub::new(chain.committee.clone(), kit::stream(seed, "pad"), 0, keep_log));
    {
        let h = hist.clone();
        *hub.mirror.lock().unwrap() = Some(Box::new(move |l| h.note(l)));
    }
    let n_sources = rng.gen_range(1..=2usize);
    let keys: Vec<node::SecretKey> = (0..3).map(|_| rng.gen()).collect();
    // Stores: sources hold the chain (the second one possibly only a prefix, growing later).
    let mut stores: Vec<Arc<Mutex<NodeStore>>> = vec![];
    for i in 0..n_sources {
        let mut st = NodeStore::new(validator::BlockNumber(0), true);
        let have = if i == 0 { len } else { rng.gen_range(0..=len) };
        st.disk.blocks = (0..have).map(|n| chain.blocks[&n].clone()).collect();
        stores.push(Arc::new(Mutex::new(st)));
    }
    let persist_now = rng.gen_range(0..100) < 60;
    let victim_store = Arc::new(Mutex::new(NodeStore::new(validator::BlockNumber(0), persist_now)));
    let max_block_queue_size = [1usize, 2, 10][rng.gen_range(0..3)];
    hist.note(format!("sync: chain of {len} blocks, {n_sources} source(s), victim persist_now={persist_now}, max_block_queue_size={max_block_queue_size}"));
    let mut nodes = vec![];
    for i in 0..n_sources {
        let spec = NodeSpec {
            name: if i == 0 { "s0" } else { "s1" },
            tag: 1 + i as u64,
            idx: i,
            key: keys[i].clone(),
            port: 3000 + i as u16,
            static_inbound: [keys[2].public()].into(),
            static_outbound: HashMap::new(),
            dynamic_inbound_limit: 0,
            max_block_queue_size: 10,
        };
        nodes.push(start_node(spec, genesis.clone(), stores[i].clone(), &hub, &clock, &sched, &net));
    }
    let victim = start_node(
        NodeSpec {
            name: "victim",
            tag: 9,
            idx: 2,
            key: keys[2].clone(),
            port: 3009,
            static_inbound: HashSet::new(),
            static_outbound: (0..n_sources).map(|i| (keys[i].public(), net::Host(addr(3000 + i as u16).to_string()))).collect(),
            dynamic_inbound_limit: 0,
            max_block_queue_size,
        },
        genesis.clone(),
        victim_store.clone(),
        &hub,
        &clock,
        &sched,
        &net,
    );

    let mut d = Director::new(seed, sched.clone(), clock.clone());
    d.tick_pct = rng.gen_range(2..12);
    d.tick_sizes = vec![100_000, 1_000_000, 20_000_000];
    d.max_steps = 3_000_000;
    {
        let vs = victim_store.clone();
        let n = net.clone();
        d.progress = Some(Box::new(move || vs.lock().unwrap().disk.next().0 * 1000 + n.0.lock().unwrap().conns.len() as u64));
    }
    let mut arng = kit::stream(seed, "sync-actions");
    let fault_rounds = rng.gen_range(0..120u64);
    let tamper_pct = [0u32, 5, 15, 40][rng.gen_range(0..4)];
    let read_err_pct = [0u32, 0, 5, 15][rng.gen_range(0..4)];
    let cut_pct = [0u32, 2, 6][rng.gen_range(0..3)];
    let mut round = 0u64;
    let mut last_seen = 0u64;
    let mut end = DriveEnd::Done;
    // Simulated time at which the last fault was injected.
    let mut fair_since: Option<i128> = None;
    // Once faults have stopped: reconnects every 20 s, a 10 s RPC timeout, 1 s persistence
    // polling - ten minutes are ample for a dozen blocks.
    const BOUND_NS: i128 = 600 * 1_000_000_000;
    let check_prefix = |hist: &SharedHist<Ev>| {
        let vs = victim_store.lock().unwrap();
        for (i, b) in vs.disk.blocks.iter().enumerate() {
            if chain.blocks.get(&(i as u64)) != Some(b) {
                hist.violation("C08", "stored_block_differs_from_chain", format!("the victim stored as block {i} something which is not block {i} of the certified chain"));
            }
        }
        vs.disk.next().0
    };
    loop {
        let have = check_prefix(&hist);
        if have != last_seen {
            last_seen = have;
            hist.rec(Ev::Stored { next: have, t_ms: d.sim_ns / 1_000_000 });
        }
        if have >= len || !hist.lock().unwrap().violations.is_empty() {
            break;
        }
        let mut budget = arng.gen_range(5..60);
        let e = d.drive(|| { budget -= 1; budget < 0 }, |_| {}).await;
        if !matches!(e, DriveEnd::Done) {
            end = e;
            break;
        }
        round += 1;
        if round <= fault_rounds {
            let src = arng.gen_range(0..n_sources);
            if arng.gen_range(0..100) < tamper_pct {
                stores[src].lock().unwrap().tamper_get_block += 1;
                hist.fault("tamper_armed");
            }
            if arng.gen_range(0..100) < read_err_pct {
                stores[src].lock().unwrap().fail_get_block += 1;
                hist.fault("read_error_armed");
            }
            if arng.gen_range(0..100) < cut_pct {
                let k = net.cut(|_| true);
                if k > 0 {
                    hist.fault("connections_reset");
                }
            }
            // The second source catches up.
            if n_sources == 2 && arng.gen_range(0..100) < 10 {
                let mut st = stores[1].lock().unwrap();
                let n = st.disk.next().0;
                if n < len {
                    st.disk.blocks.push(chain.blocks[&n].clone());
                    st.publish();
                }
            }
        } else if fair_since.is_none() {
            // Faults stop: whatever was armed but has not fired is disarmed.
            for st in &stores {
                let mut st = st.lock().unwrap();
                st.tamper_get_block = 0;
                st.fail_get_block = 0;
            }
            fair_since = Some(d.sim_ns);
            hist.note(format!("faults stop at t={} ms", d.sim_ns / 1_000_000));
        }
        if !persist_now && arng.gen_range(0..100) < 40 {
            let mut vs = victim_store.lock().unwrap();
            let _ = vs.persist_one();
        }
        if fair_since.is_some_and(|t| d.sim_ns - t > BOUND_NS) {
            end = DriveEnd::Stuck;
            break;
        }
    }
    let have = check_prefix(&hist);
    if have < len && matches!(end, DriveEnd::StepLimit) {
        hist.probe("step_budget_exhausted_before_time_bound");
    } else if have < len && hist.lock().unwrap().violations.is_empty() {
        let q = victim.0.lock().unwrap().as_ref().map(|n| network::verif::view(n).fetch_queue).unwrap_or_default();
        hist.violation(
            "C19",
            "block_never_fetched",
            format!(
                "faults stopped at t={:?} ms, now t={} ms ({end:?}): the victim holds blocks [0, {have}) of {len}, source s0 serves all of them, \
                 the victim's fetch queue is {q:?} - block {have} is not being asked for any more",
                fair_since.map(|t| t / 1_000_000),
                d.sim_ns / 1_000_000
            ),
        );
    }
    // Shut down.
    let mut handles = vec![victim.2];
    let _ = victim.1.send(());
    for (_, k, h) in nodes {
        let _ = k.send(());
        handles.push(h);
    }
    d.tick_sizes = vec![10_000_000_000];
    d.progress = None;
    let _ = d.drive(|| handles.iter().all(|h| h.is_finished()), |_| {}).await;
    d.drain().await;
    for v in hub.inner.lock().unwrap().violations.clone() {
        hist.violation(&v.property, &v.class, v.detail.clone());
    }
    for (k, n) in hub.inner.lock().unwrap().faults.clone() {
        for _ in 0..n {
            hist.fault(&k);
        }
    }
    if keep_log {
        for l in net.0.lock().unwrap().log.iter() {
            hist.note(format!("net: {l}"));
        }
    }
    let conns = net.conns().len();
    if conns > n_sources {
        hist.probe("reconnected_after_failure");
    }
    let he = if sched.live() != 0 && hist.lock().unwrap().violations.is_empty() { Some(format!("{} tasks alive", sched.live())) } else { None };
    finish(
        seed,
        "sync",
        &sched,
        &hist,
        d.sim_ns,
        len >= 3,
        vec![kit::mix(n_sources as u64, kit::mix(conns.min(12) as u64, len))],
        json!({"blocks": len, "sources": n_sources, "fetched": have, "connections": conns, "fault_rounds": fault_rounds, "tamper_pct": tamper_pct, "read_error_pct": read_err_pct, "cut_pct": cut_pct}),
        he,
    )
}
