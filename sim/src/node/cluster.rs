//! The whole system in one process: 4-6 validators, each a complete `executor::Executor`
//! (network component: accept loop, noise, handshakes, pools, mux, rpc, address and block gossip,
//! consensus connections; bft component: replica, proposer; engine manager and block store) on a
//! simulated execution layer + disk (`SimEngine`), all connected through simulated TCP only.
//! Nobody is told anybody's consensus address: validators find each other through the address
//! announcements gossiped over the static gossip links, exactly as deployed nodes do.
//!
//! Faults while blocks are being produced: connection resets (all or per node), one node
//! restarted from its durable state, persistence lag, clock jumps.
//!
//! Oracles: agreement on every block handed to any execution layer (C01, the hub's ledger), no gap
//! in any persisted chain (C08), and bounded liveness end to end (C06): once faults stop, every
//! validator's durable chain grows by at least `GROWTH` blocks within `BOUND_NS` of simulated time.
use std::{collections::{HashMap, HashSet}, net::SocketAddr, rc::Rc, sync::{Arc, Mutex}};

use rand::Rng;
use serde_json::json;
use zksync_concurrency::{ctx, net, oneshot, scope, time, verif::{net_shim, tokio_shim as gtokio}};
use zksync_consensus_engine::EngineManager;
use zksync_consensus_executor as executor;
use zksync_consensus_roles::{node, validator};

use crate::{
    bft::{engine::{NodeStore, SimEngine}, hub::Hub},
    cli::CaseResult,
    kit::{self, simnet::Net, Sched},
    prim::{finish, new_hist, Director, DriveEnd, HistExt, SharedHist},
};

#[derive(Debug, Clone)]
pub enum Ev {
    Note(String),
    Heights { t_ms: i128, next: Vec<u64> },
}

fn addr(port: u16) -> SocketAddr {
    format!("127.0.0.1:{port}").parse().unwrap()
}

struct Live {
    kill: Option<oneshot::Sender<()>>,
    done: tokio::task::JoinHandle<()>,
}

#[allow(clippy::too_many_arguments)]
fn start_node(
    i: usize,
    n: usize,
    genesis: &validator::Genesis,
    vkey: &validator::SecretKey,
    nkeys: &[node::SecretKey],
    store: &Arc<Mutex<NodeStore>>,
    hub: &Arc<Hub>,
    clock: &ctx::ManualClock,
    sched: &Sched,
    net: &Net,
    view_timeout_ms: i64,
) -> Live {
    let inc = store.lock().unwrap().inc + 1;
    let tag = (i as u64 + 1) * 1000 + inc;
    net.0.lock().unwrap().actors.insert(tag, format!("v{i}"));
    let engine = SimEngine::new_incarnation(i, genesis.clone(), store.clone(), hub.clone());
    // Static gossip links: a ring plus one chord, so that the gossip graph stays connected when
    // one node is down.
    let mut out: HashMap<node::PublicKey, net::Host> = HashMap::new();
    for d in [1usize, 2] {
        let j = (i + d) % n;
        if j != i {
            out.insert(nkeys[j].public(), net::Host(addr(3000 + j as u16).to_string()));
        }
    }
    let cfg = executor::Config {
        build_version: None,
        server_addr: addr(3000 + i as u16),
        public_addr: net::Host(addr(3000 + i as u16).to_string()),
        max_payload_size: 2000,
        max_tx_size: 1000,
        view_timeout: time::Duration::milliseconds(view_timeout_ms),
        gossip_dynamic_inbound_limit: 10,
        gossip_static_inbound: HashSet::new(),
        gossip_static_outbound: out,
        rpc: executor::RpcConfig::default(),
        node_key: nkeys[i].clone(),
        validator_key: Some(vkey.clone()),
        debug_page: None,
    };
    let (kill, kill_recv) = oneshot::channel::<()>();
    let clock = clock.clone();
    sched.set_spawn_tag(tag);
    let done = gtokio::spawn(async move {
        let root = ctx::test_root(&clock);
        let ctx = &root;
        let Ok((mgr, runner)) = EngineManager::new(ctx, Box::new(engine), time::Duration::seconds(1)).await else { return };
        let _: anyhow::Result<()> = scope::run!(ctx, |ctx, s| async move {
            s.spawn_bg(async move { runner.run(ctx).await });
            s.spawn_bg(async move { executor::Executor { config: cfg, engine_manager: mgr }.run(ctx).await });
            let _ = kill_recv.recv_or_disconnected(ctx).await;
            Ok(())
        })
        .await;
    });
    sched.set_spawn_tag(0);
    Live { kill: Some(kill), done }
}

pub async fn run(seed: u64, sched: Rc<Sched>, keep_log: bool) -> (CaseResult, Vec<String>) {
    let mut rng = kit::stream(seed, "cluster");
    let hist: SharedHist<Ev> = new_hist(keep_log);
    let clock = ctx::ManualClock::new();
    let net = Net::new(seed);
    net.0.lock().unwrap().fragment = rng.gen_range(0..100) < 10;
    net_shim::install_net(Some(net.handle()));
    let n = rng.gen_range(4..=6usize);
    let view_timeout_ms = [1000i64, 2000, 5000][rng.gen_range(0..3)];
    let cfg = crate::bft::Cfg {
        seed,
        weights: vec![1; n],
        leaders: vec![true; n],
        byz: vec![false; n],
        weighted: false,
        frequency: 1,
        first_block: 0,
        max_payload: 2000,
        max_pad: [0usize, 8, 40][rng.gen_range(0..3)],
        view_timeout_ms,
        policy: kit::Policy::Uniform,
        persist_now: true,
        faults: Default::default(),
        n_actions: 0,
        twins: 0,
        arm: None,
    };
    let committee = crate::bft::cluster::make_committee(&cfg);
    let genesis = committee.genesis.clone();
    let hub = Arc::new(Hub::new(committee.clone(), kit::stream(seed, "pad"), cfg.max_pad, keep_log));
    {
        let h = hist.clone();
        *hub.mirror.lock().unwrap() = Some(Box::new(move |l| h.note(l)));
    }
    let nkeys: Vec<node::SecretKey> = (0..n).map(|_| rng.gen()).collect();
    let persist_now = rng.gen_range(0..100) < 60;
    let stores: Vec<Arc<Mutex<NodeStore>>> = (0..n).map(|_| Arc::new(Mutex::new(NodeStore::new(validator::BlockNumber(0), persist_now)))).collect();
    hist.note(format!("cluster: {n} validators, view timeout {view_timeout_ms} ms, persist_now={persist_now}"));
    let mut live: Vec<Option<Live>> = (0..n)
        .map(|i| Some(start_node(i, n, &genesis, &committee.keys[i], &nkeys, &stores[i], &hub, &clock, &sched, &net, view_timeout_ms)))
        .collect();

    let mut d = Director::new(seed, sched.clone(), clock.clone());
    // The CPU is fast compared with the timers: a view (dozens of messages, each a few hundred
    // task polls through rpc / mux / noise) must fit into a view timeout, so the clock moves in
    // small steps while tasks are runnable and jumps to the next timer when nothing is.
    d.tick_pct = rng.gen_range(1..4);
    d.tick_sizes = vec![10_000, 100_000, 1_000_000];
    d.max_steps = 12_000_000;
    {
        let st = stores.clone();
        let nn = net.clone();
        d.progress = Some(Box::new(move || st.iter().map(|s| s.lock().unwrap().disk.next().0).sum::<u64>() * 1000 + nn.0.lock().unwrap().conns.len() as u64));
    }
    let mut arng = kit::stream(seed, "cluster-actions");
    let heights = |stores: &[Arc<Mutex<NodeStore>>]| -> Vec<u64> { stores.iter().map(|s| s.lock().unwrap().disk.next().0).collect() };
    // Phase 1: until every validator has `warm` blocks (no faults: the network has to form first),
    // phase 2: faults for `fault_rounds` rounds, phase 3: fair suffix.
    let warm = rng.gen_range(1..4u64);
    let fault_rounds = rng.gen_range(0..150u64);
    let cut_pct = [0u32, 2, 5][rng.gen_range(0..3)];
    let restart_pct = [0u32, 1, 2][rng.gen_range(0..3)];
    const GROWTH: u64 = 3;
    // Re-dials happen every 20 s, views time out after <= 5 s, address announcements are repeated
    // when connections come up: twenty minutes of simulated time are ample for three blocks.
    const BOUND_NS: i128 = 1200 * 1_000_000_000;
    let mut phase = 1;
    let mut round = 0u64;
    let mut fair_since: Option<(i128, Vec<u64>)> = None;
    let mut down: Option<(usize, u64)> = None;
    let mut last = heights(&stores);
    let mut end = DriveEnd::Done;
    loop {
        let h = heights(&stores);
        if h != last {
            last = h.clone();
            hist.rec(Ev::Heights { t_ms: d.sim_ns / 1_000_000, next: h.clone() });
        }
        if !hub.inner.lock().unwrap().violations.is_empty() {
            break;
        }
        if let Some((_, base)) = &fair_since {
            if h.iter().zip(base).all(|(a, b)| *a >= *b + GROWTH) {
                break;
            }
        }
        let mut budget = arng.gen_range(20..200);
        let e = d.drive(|| { budget -= 1; budget < 0 }, |_| {}).await;
        if !matches!(e, DriveEnd::Done) {
            end = e;
            break;
        }
        if !persist_now && arng.gen_range(0..100) < 50 {
            for s in &stores {
                let _ = s.lock().unwrap().persist_one();
            }
        }
        match phase {
            1 => {
                if h.iter().all(|x| *x >= warm) {
                    phase = 2;
                    hist.note(format!("network formed at t={} ms, heights {h:?}", d.sim_ns / 1_000_000));
                } else if d.sim_ns > BOUND_NS {
                    end = DriveEnd::Stuck;
                    break;
                }
            }
            2 => {
                round += 1;
                if round > fault_rounds {
                    if let Some((i, _)) = down.take() {
                        live[i] = Some(start_node(i, n, &genesis, &committee.keys[i], &nkeys, &stores[i], &hub, &clock, &sched, &net, view_timeout_ms));
                    }
                    phase = 3;
                    fair_since = Some((d.sim_ns, heights(&stores)));
                    hist.note(format!("faults stop at t={} ms, heights {:?}", d.sim_ns / 1_000_000, heights(&stores)));
                    continue;
                }
                if arng.gen_range(0..100) < cut_pct {
                    let k = if arng.gen_bool(0.5) {
                        net.cut(|_| true)
                    } else {
                        let v = format!("v{}", arng.gen_range(0..n));
                        net.cut(|c| c.client == v || c.server == v)
                    };
                    if k > 0 {
                        hist.fault("connections_reset");
                    }
                }
                match down {
                    None if arng.gen_range(0..100) < restart_pct => {
                        let i = arng.gen_range(0..n);
                        if let Some(mut l) = live[i].take() {
                            hist.fault("node_stopped");
                            hub.ev(format!("v{i} stops"));
                            stores[i].lock().unwrap().dead = true;
                            let _ = l.kill.take().map(|k| k.send(()));
                            // Let it wind down.
                            let _ = d.drive(|| l.done.is_finished(), |_| {}).await;
                            down = Some((i, round + arng.gen_range(1..30)));
                        }
                    }
                    Some((i, until)) if round >= until => {
                        hub.ev(format!("v{i} restarts from its durable state"));
                        live[i] = Some(start_node(i, n, &genesis, &committee.keys[i], &nkeys, &stores[i], &hub, &clock, &sched, &net, view_timeout_ms));
                        down = None;
                    }
                    _ => {}
                }
            }
            _ => {
                let (t, _) = fair_since.as_ref().unwrap();
                if d.sim_ns - *t > BOUND_NS {
                    end = DriveEnd::Stuck;
                    break;
                }
            }
        }
    }
    let h = heights(&stores);
    let grown = fair_since.as_ref().is_some_and(|(_, base)| h.iter().zip(base).all(|(a, b)| *a >= *b + GROWTH));
    if !grown && hub.inner.lock().unwrap().violations.is_empty() {
        let what = match (&fair_since, phase) {
            (None, 1) => format!("the validators never all reached {warm} blocks although nothing was ever disturbed"),
            (None, _) => "the run ended during the fault phase".to_string(),
            (Some((t, base)), _) => format!("faults stopped at t={} ms with heights {base:?}", t / 1_000_000),
        };
        if matches!(end, DriveEnd::StepLimit) {
            // The step budget of the harness ran out before the time bound of the oracle: no verdict.
            hist.probe("step_budget_exhausted_before_time_bound");
        } else if phase != 2 {
            hist.violation(
                "C06",
                "no_progress_end_to_end",
                format!("{what}; now t={} ms ({end:?}) and the durable chains end at {h:?}: not every validator gained {GROWTH} blocks", d.sim_ns / 1_000_000),
            );
        }
    }
    // Shut down.
    let mut handles = vec![];
    for l in live.iter_mut().flatten() {
        let _ = l.kill.take().map(|k| k.send(()));
    }
    for l in live.into_iter().flatten() {
        handles.push(l.done);
    }
    d.tick_sizes = vec![10_000_000_000];
    d.progress = None;
    let _ = d.drive(|| handles.iter().all(|h| h.is_finished()), |_| {}).await;
    d.drain().await;
    for v in hub.inner.lock().unwrap().violations.clone() {
        hist.violation(&v.property, &v.class, v.detail.clone());
    }
    for (k, c) in hub.inner.lock().unwrap().faults.clone() {
        for _ in 0..c {
            hist.fault(&k);
        }
    }
    if keep_log {
        for l in net.0.lock().unwrap().log.iter() {
            hist.note(format!("net: {l}"));
        }
    }
    let conns = net.conns().len();
    let blocks = hub.inner.lock().unwrap().ledger.len();
    if blocks > 0 {
        hist.probe("blocks_committed_end_to_end");
    }
    let he = if sched.live() != 0 && hist.lock().unwrap().violations.is_empty() { Some(format!("{} tasks alive", sched.live())) } else { None };
    finish(
        seed,
        "cluster",
        &sched,
        &hist,
        d.sim_ns,
        blocks >= 3,
        vec![kit::mix(n as u64, kit::mix(conns.min(40) as u64, blocks.min(30) as u64))],
        json!({"validators": n, "blocks": blocks, "heights": h, "connections": conns, "fault_rounds": fault_rounds, "cut_pct": cut_pct, "restart_pct": restart_pct, "view_timeout_ms": view_timeout_ms}),
        he,
    )
}
