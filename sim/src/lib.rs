//! Deterministic simulation harness for era-consensus (see /verif/DESIGN.md).
pub mod bft;
pub mod cli;
pub mod kit;
pub mod node;
pub mod pipes;
pub mod prim;
pub mod props;
