fn main() {
    std::process::exit(verifsim::cli::main());
}
