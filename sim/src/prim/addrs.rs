//! C18: the real validator address book (`ValidatorAddrsWatch`, via hook H4) fed with
//! announcement batches by concurrent "peers", compared with a reference map
//! key -> newest valid announcement after every batch.
use std::{collections::BTreeMap, rc::Rc, sync::Arc};

use rand::{seq::SliceRandom, Rng};
use serde_json::json;
use zksync_concurrency::{ctx, time, verif::{sched_point, tokio_shim as gtokio}};
use zksync_consensus_network::verif::gossip::ValidatorAddrsWatch;
use zksync_consensus_roles::validator;

use super::{finish, new_hist, Director, HistExt, SharedHist};
use crate::{cli::CaseResult, kit::{self, Sched}};

type Ann = Arc<validator::Signed<validator::NetAddress>>;

#[derive(Debug, Clone)]
pub enum Ev {
    /// Batch `batch` applied to book `book` (logged in the step in which `update` returned).
    Applied { book: usize, batch: usize, ok: bool },
}

fn h(a: &Ann) -> u64 {
    kit::hash_bytes(&zksync_protobuf::encode(&**a))
}

/// The address book under test: the bare `ValidatorAddrsWatch`, or the one inside a whole
/// `network::Network` node, fed through the node's real `push_validator_addrs` RPC handler.
enum Book {
    Watch(Arc<ValidatorAddrsWatch>),
    Node(Arc<zksync_consensus_network::Network>, Arc<ctx::Ctx>),
}

impl Book {
    async fn update(&self, schedule: &validator::Schedule, data: &[Ann]) -> anyhow::Result<()> {
        match self {
            Book::Watch(w) => w.update(schedule, data).await,
            Book::Node(n, ctx) => zksync_consensus_network::verif::push_validator_addrs(n, ctx, data).await,
        }
    }
    fn current(&self) -> Vec<Ann> {
        match self {
            Book::Watch(w) => w.current(),
            Book::Node(n, _) => zksync_consensus_network::verif::view(n).validator_addrs,
        }
    }
}

pub async fn run(seed: u64, sched: Rc<Sched>, keep_log: bool) -> (CaseResult, Vec<String>) {
    run_with(seed, sched, keep_log, false).await
}

/// `in_situ`: the books live inside real nodes, requests are large (up to 100 entries, most of
/// them padding by non-members) and go through the RPC handler.
pub async fn run_with(seed: u64, sched: Rc<Sched>, keep_log: bool, in_situ: bool) -> (CaseResult, Vec<String>) {
    let mut rng = kit::stream(seed, if in_situ { "addrs-node" } else { "addrs" });
    let hist: SharedHist<Ev> = new_hist(keep_log);
    let clock = ctx::ManualClock::new();
    let nval = rng.gen_range(1..=5usize);
    let nout = if in_situ { rng.gen_range(40..=110usize) } else { rng.gen_range(0..=2usize) };
    let keys: Vec<validator::SecretKey> = (0..nval + nout).map(|_| rng.gen()).collect();
    let schedule = validator::Schedule::new(
        keys[..nval].iter().map(|k| validator::ValidatorInfo { key: k.public(), weight: 1, leader: true }),
        validator::LeaderSelection::default(),
    )
    .unwrap();
    let base = clock.now_utc();
    // Announcements: few distinct (version, timestamp) pairs so that ties and reversals abound.
    let mut anns: Vec<(Ann, bool)> = vec![]; // (announcement, validly signed)
    let nann = if in_situ { rng.gen_range(150..400usize) } else { rng.gen_range(4..30usize) };
    let mut equal_vt_conflict = false;
    let mut seen_vt: BTreeMap<(usize, u64, i64), std::net::SocketAddr> = BTreeMap::new();
    for _ in 0..nann {
        // In situ most entries are padding by non-members.
        let k = if in_situ && rng.gen_range(0..100) < 65 { rng.gen_range(nval..keys.len()) } else { rng.gen_range(0..keys.len()) };
        let version = match rng.gen_range(0..100) { 0..=3 => u64::MAX, 4..=7 => u64::MAX - 1, _ => rng.gen_range(0..4u64) };
        let dt = match rng.gen_range(0..100) { 0..=4 => 1_000_000_000i64, _ => rng.gen_range(0..3i64) };
        let addr: std::net::SocketAddr = format!("10.0.{}.{}:{}", k, rng.gen_range(1..5), 3000 + rng.gen_range(0..3)).parse().unwrap();
        let msg = validator::NetAddress { addr, version, timestamp: base + time::Duration::seconds(dt) };
        if let Some(a0) = seen_vt.get(&(k, version, dt)) {
            if *a0 != addr {
                equal_vt_conflict = true;
            }
        } else {
            seen_vt.insert((k, version, dt), addr);
        }
        let mut s = keys[k].sign_msg(msg.clone());
        let valid = rng.gen_range(0..100) >= if in_situ { 22 } else { 12 };
        if !valid {
            match if keys.len() > 1 { rng.gen_range(0..2) } else { 1 } {
                // forged: signature of another key
                0 => s.sig = keys[(k + 1) % keys.len()].sign_msg(msg).sig,
                // altered content under a genuine signature
                _ => s.msg.addr = "6.6.6.6:6".parse().unwrap(),
            }
        }
        anns.push((Arc::new(s), valid));
    }
    // Batches.
    let nbatch = rng.gen_range(2..14usize);
    let mut batches: Vec<Vec<usize>> = vec![];
    for bi in 0..nbatch {
        if in_situ && rng.gen_range(0..100) < 30 {
            // "A forged entry positioned after valid ones": a fresh, valid, newest announcement of
            // one member first, a long run of padding by non-members, then a forged newest
            // announcement of a member.
            let mk = |rng: &mut crate::kit::SimRng, valid: bool, version: u64| -> (Ann, bool) {
                let k = rng.gen_range(0..nval);
                let msg = validator::NetAddress { addr: format!("10.9.{}.{}:4000", k, version % 250).parse().unwrap(), version, timestamp: base };
                let mut s = keys[k].sign_msg(msg.clone());
                if !valid {
                    s.sig = keys[nval + rng.gen_range(0..nout)].sign_msg(msg).sig;
                }
                (Arc::new(s), valid)
            };
            let first = mk(&mut rng, true, 100 + 2 * bi as u64);
            let last = mk(&mut rng, false, 101 + 2 * bi as u64);
            let same_key = first.0.key == last.0.key;
            anns.push(first);
            let mut b = vec![anns.len() - 1];
            let mut seen = vec![];
            for _ in 0..rng.gen_range(31..80) {
                let i = rng.gen_range(0..anns.len());
                let k = &anns[i].0.key;
                if !schedule.contains(k) && !seen.contains(k) {
                    seen.push(k.clone());
                    b.push(i);
                }
            }
            if !same_key {
                anns.push(last);
                b.push(anns.len() - 1);
            }
            batches.push(b);
            continue;
        }
        let len = if in_situ { [1usize, 5, 31, 32, 33, 40, 64, 65, 100][rng.gen_range(0..9)] } else { rng.gen_range(1..6usize) };
        let mut b: Vec<usize> = (0..len).map(|_| rng.gen_range(0..anns.len())).collect();
        if rng.gen_range(0..100) < 70 {
            // usually no duplicate keys inside a batch
            let mut seen = vec![];
            b.retain(|i| {
                let k = anns[*i].0.key.clone();
                if seen.contains(&k) { false } else { seen.push(k); true }
            });
        }
        batches.push(b);
    }
    let nbooks = if in_situ { rng.gen_range(1..=2usize) } else { rng.gen_range(2..=3usize) };
    let mut node_handles = vec![];
    let books: Vec<Arc<Book>> = if !in_situ {
        (0..nbooks).map(|_| Arc::new(Book::Watch(Arc::new(ValidatorAddrsWatch::default())))).collect()
    } else {
        // Whole nodes (no connections between them: the harness is the gossip).
        use crate::bft::{engine::NodeStore, hub::{Committee, Hub}};
        let net = crate::kit::simnet::Net::new(seed);
        zksync_concurrency::verif::net_shim::install_net(Some(net.handle()));
        let genesis = validator::GenesisRaw {
            chain_id: validator::ChainId(5),
            fork_number: validator::ForkNumber(0),
            protocol_version: validator::ProtocolVersion::CURRENT,
            first_block: validator::BlockNumber(0),
            validators_schedule: Some(schedule.clone()),
        }
        .with_hash();
        let committee = Committee {
            pubkeys: keys[..nval].iter().map(|k| k.public()).collect(),
            keys: keys[..nval].to_vec(),
            weights: vec![1; nval],
            byz: vec![false; nval],
            genesis: genesis.clone(),
            schedule: schedule.clone(),
        };
        let mut out = vec![];
        for b in 0..nbooks {
            let hub = Arc::new(Hub::new(committee.clone(), kit::stream(seed, "pad"), 0, false));
            let store = Arc::new(std::sync::Mutex::new(NodeStore::new(validator::BlockNumber(0), true)));
            let spec = crate::node::sync::NodeSpec {
                name: if b == 0 { "book0" } else { "book1" },
                tag: 1 + b as u64,
                idx: 0,
                key: rng.gen(),
                port: 3100 + b as u16,
                static_inbound: Default::default(),
                static_outbound: Default::default(),
                dynamic_inbound_limit: 0,
                max_block_queue_size: 2,
            };
            let (slot, kill, h) = crate::node::sync::start_node(spec, genesis.clone(), store, &hub, &clock, &sched, &net);
            // Let the node come up.
            let mut d0 = Director::new(seed ^ b as u64, sched.clone(), clock.clone());
            d0.tick_pct = 0;
            let s2 = slot.clone();
            let _ = d0.drive(|| s2.lock().unwrap().is_some(), |_| {}).await;
            let Some(n) = slot.lock().unwrap().clone() else {
                hist.note("node did not start".into());
                continue;
            };
            out.push(Arc::new(Book::Node(n, Arc::new(ctx::test_root(&clock)))));
            node_handles.push((kill, h));
        }
        out
    };
    let nbooks = books.len();
    let anns = Arc::new(anns);
    let batches = Arc::new(batches);
    let schedule = Arc::new(schedule);
    // Each book gets every batch, from 1-3 peer tasks, in its own order.
    let mut handles = vec![];
    for (book, bk) in books.iter().enumerate() {
        let mut order: Vec<usize> = (0..nbatch).collect();
        order.shuffle(&mut rng);
        let npeers = rng.gen_range(1..=3usize);
        let mut lists: Vec<Vec<usize>> = vec![vec![]; npeers];
        for b in order {
            lists[rng.gen_range(0..npeers)].push(b);
        }
        for list in lists {
            let (bk, hist, anns, batches, schedule) = (bk.clone(), hist.clone(), anns.clone(), batches.clone(), schedule.clone());
            let yields = rng.gen_range(0..4);
            handles.push(gtokio::spawn(async move {
                for b in list {
                    for _ in 0..yields {
                        sched_point().await;
                    }
                    let data: Vec<Ann> = batches[b].iter().map(|i| anns[*i].0.clone()).collect();
                    let r = bk.update(&schedule, &data).await;
                    hist.rec(Ev::Applied { book, batch: b, ok: r.is_ok() });
                    sched_point().await;
                }
            }));
        }
    }
    let mut d = Director::new(seed, sched.clone(), clock.clone());
    d.tick_pct = 0;
    let _ = d.drive(|| handles.iter().all(|h| h.is_finished()), |_| {}).await;
    // Snapshot of the books before the nodes (if any) are shut down.
    let currents: Vec<Vec<Ann>> = books.iter().map(|b| b.current()).collect();
    drop(books);
    let mut hs = vec![];
    for (k, h) in node_handles {
        let _ = k.send(());
        hs.push(h);
    }
    if !hs.is_empty() {
        d.tick_pct = 5;
        d.tick_sizes = vec![10_000_000_000];
        let _ = d.drive(|| hs.iter().all(|h| h.is_finished()), |_| {}).await;
        zksync_concurrency::verif::net_shim::install_net(None);
    }
    d.drain().await;
    // Reference model, applied in the linearisation order of each book.
    let events = hist.lock().unwrap().events.clone();
    let valid_of: BTreeMap<u64, bool> = anns.iter().map(|(a, v)| (h(a), *v)).collect();
    let mut rejected = 0;
    let mut replaced = 0;
    let mut finals: Vec<BTreeMap<validator::PublicKey, Ann>> = vec![];
    for book in 0..nbooks {
        let mut model: BTreeMap<validator::PublicKey, Ann> = BTreeMap::new();
        for (no, e) in &events {
            let Ev::Applied { book: bk, batch, ok } = e;
            if *bk != book {
                continue;
            }
            // Batch semantics: all or nothing; duplicate key -> reject; outsiders skipped; not newer
            // -> skipped unverified; newer and badly signed -> reject.
            let mut copy = model.clone();
            let mut seen: Vec<validator::PublicKey> = vec![];
            let mut want_ok = true;
            for i in &batches[*batch] {
                let a = &anns[*i].0;
                if seen.contains(&a.key) {
                    want_ok = false;
                    break;
                }
                seen.push(a.key.clone());
                if !schedule.contains(&a.key) {
                    continue;
                }
                if let Some(cur) = copy.get(&a.key) {
                    // The model's own notion of "strictly newer" (not the repo's `is_newer`).
                    let newer = (a.msg.version, a.msg.timestamp) > (cur.msg.version, cur.msg.timestamp);
                    if !newer {
                        continue;
                    }
                    replaced += 1;
                }
                if !valid_of[&h(a)] {
                    want_ok = false;
                    break;
                }
                copy.insert(a.key.clone(), a.clone());
            }
            if want_ok {
                model = copy;
            } else {
                rejected += 1;
            }
            if want_ok != *ok {
                hist.violation("C18", "batch_verdict_differs", format!("event {no}: book {book} answered {} to batch {batch}, reference model says {}", ok, want_ok));
            }
        }
        // Final comparison + intrinsic invariants of the real book.
        let real: BTreeMap<validator::PublicKey, Ann> = currents[book].iter().cloned().map(|a| (a.key.clone(), a)).collect();
        for (k, a) in &real {
            if !schedule.contains(k) {
                hist.violation("C18", "outsider_in_address_book", format!("book {book} holds an announcement of a key outside the committee"));
            }
            if a.verify().is_err() {
                hist.violation("C18", "unauthentic_entry", format!("book {book} holds an announcement which is not validly signed by its key"));
            }
        }
        let rk: Vec<u64> = real.values().map(h).collect();
        let mk: Vec<u64> = model.values().map(h).collect();
        if rk != mk {
            hist.violation("C18", "book_differs_from_model", format!("book {book}: {} entries, reference model {} entries (or different content)", rk.len(), mk.len()));
        }
        finals.push(real);
    }
    // Books which saw the same batches agree, unless a validator signed two different
    // announcements with equal (version, timestamp), or a batch was rejected (order-dependent).
    if !equal_vt_conflict && rejected == 0 {
        for b in 1..nbooks {
            let a0: Vec<u64> = finals[0].values().map(h).collect();
            let ab: Vec<u64> = finals[b].values().map(h).collect();
            if a0 != ab {
                hist.violation("C18", "books_diverge", format!("books 0 and {b} received the same batches but hold different entries"));
            }
        }
        hist.probe("convergence_checked");
    }
    if rejected > 0 {
        hist.probe("batch_rejected");
    }
    if replaced > 0 {
        hist.probe("entry_replaced_by_newer");
    }
    let states = vec![kit::mix(nval as u64, kit::mix(rejected.min(9) as u64, replaced.min(9) as u64))];
    let he = if sched.live() != 0 { Some("tasks alive".to_string()) } else { None };
    if in_situ {
        hist.probe("through_the_rpc_handler_of_a_node");
    }
    finish(seed, if in_situ { "addrs-node" } else { "addrs" }, &sched, &hist, d.sim_ns, replaced > 0 || rejected > 0, states,
        json!({"validators": nval, "outsiders": nout, "announcements": nann, "batches": nbatch, "books": nbooks, "rejected_batches": rejected, "replacements": replaced}), he)
}
