//! E3 `primsim`: concurrency primitives and bookkeeping structures, each driven by a handful of
//! client tasks whose every await is a scheduling point of the gate scheduler, against a small
//! executable reference model and history checks.
pub mod abandon;
pub mod addrs;
pub mod channel;
pub mod fetch;
pub mod limiter;
pub mod pool;
pub mod scopes;
pub mod store;

use std::{
    collections::BTreeMap,
    rc::Rc,
    sync::{Arc, Mutex},
};

use rand::Rng;
use crate::kit::SimRng as ChaCha8Rng;
use zksync_concurrency::{ctx, time};

use crate::{
    cli::CaseResult,
    kit::{self, run_sim, Log, Policy, Sched, Violation},
};

/// History shared between client tasks (Send) and the director.
pub struct Hist<E> {
    pub log: Log,
    pub events: Vec<(u64, E)>,
    pub violations: Vec<Violation>,
    pub probes: BTreeMap<String, u64>,
    pub faults: BTreeMap<String, u64>,
}

pub type SharedHist<E> = Arc<Mutex<Hist<E>>>;

pub fn new_hist<E>(keep_log: bool) -> SharedHist<E> {
    Arc::new(Mutex::new(Hist {
        log: Log::new(keep_log),
        events: vec![],
        violations: vec![],
        probes: BTreeMap::new(),
        faults: BTreeMap::new(),
    }))
}

pub trait HistExt<E> {
    fn rec(&self, e: E) -> u64;
    fn violation(&self, property: &str, class: &str, detail: String);
    fn probe(&self, name: &str);
    fn fault(&self, name: &str);
    fn note(&self, line: String);
}

impl<E: std::fmt::Debug> HistExt<E> for SharedHist<E> {
    fn rec(&self, e: E) -> u64 {
        let mut h = self.lock().unwrap();
        let n = h.log.ev(format!("{e:?}"));
        h.events.push((n, e));
        n
    }
    fn violation(&self, property: &str, class: &str, detail: String) {
        let mut h = self.lock().unwrap();
        let event = h.log.ev(format!("VIOLATION {property} {class}: {detail}"));
        h.violations.push(Violation {
            property: property.into(),
            class: class.into(),
            detail,
            event,
        });
    }
    fn probe(&self, name: &str) {
        *self.lock().unwrap().probes.entry(name.into()).or_default() += 1;
    }
    fn fault(&self, name: &str) {
        *self.lock().unwrap().faults.entry(name.into()).or_default() += 1;
    }
    fn note(&self, line: String) {
        self.lock().unwrap().log.ev(line);
    }
}

/// The director of a primitive scenario: interleaves task steps with clock advances.
pub struct Director {
    pub sched: Rc<Sched>,
    pub rng: ChaCha8Rng,
    pub clock: ctx::ManualClock,
    pub sim_ns: i128,
    /// Probability (percent) of advancing the clock instead of stepping a ready task.
    pub tick_pct: u32,
    /// Candidate clock advances, in nanoseconds.
    pub tick_sizes: Vec<i64>,
    pub max_steps: u64,
    /// Monotone progress measure of the scenario. When set, "stuck" means: the measure did not
    /// change while the clock was advanced 200 times with nothing else to do (tasks woken merely
    /// by the clock, e.g. context deadline watchers, do not count as progress).
    pub progress: Option<Box<dyn Fn() -> u64>>,
}

#[derive(Debug)]
pub enum DriveEnd {
    Done,
    /// Nothing is ready, advancing the clock does not help any more.
    Stuck,
    StepLimit,
}

impl Director {
    pub fn new(seed: u64, sched: Rc<Sched>, clock: ctx::ManualClock) -> Self {
        Self {
            sched,
            rng: kit::stream(seed, "director"),
            clock,
            sim_ns: 0,
            tick_pct: 10,
            tick_sizes: vec![1, 1_000, 1_000_000],
            max_steps: 20_000,
            progress: None,
        }
    }

    pub fn advance(&mut self, ns: i64) {
        self.clock.advance(time::Duration::nanoseconds(ns));
        self.sim_ns += ns as i128;
    }

    /// Lets leftover tasks (context watchers whose context has just been dropped) finish.
    pub async fn drain(&mut self) {
        let sched = self.sched.clone();
        let pct = self.tick_pct;
        self.tick_pct = 0;
        let _ = self.drive(|| sched.live() == 0, |_| {}).await;
        self.tick_pct = pct;
    }

    /// Runs until `done()` holds. `on_step` is called after every step / tick (for invariants).
    pub async fn drive(
        &mut self,
        mut done: impl FnMut() -> bool,
        mut on_step: impl FnMut(&mut Self),
    ) -> DriveEnd {
        let mut idle_ticks = 0u32;
        let mut busy_ticks = 0u32;
        let mut last_progress = self.progress.as_ref().map(|p| p());
        loop {
            self.sched.settle().await;
            if done() {
                return DriveEnd::Done;
            }
            if self.sched.steps() > self.max_steps {
                self.sched.note_step_limit();
                return DriveEnd::StepLimit;
            }
            let ready = self.sched.ready_len();
            // (A cut replay may answer "tick" for ever; runnable tasks are never starved of more
            // than 1000 consecutive clock advances.)
            let tick = ready == 0 || (self.rng.gen_range(0..100) < self.tick_pct && busy_ticks < 1000);
            busy_ticks = if tick && ready > 0 { busy_ticks + 1 } else { 0 };
            if tick {
                let k = self.rng.gen_range(0..self.tick_sizes.len());
                let mut ns = self.tick_sizes[k];
                if ready == 0 {
                    idle_ticks += 1;
                    // Nothing can run: time is the only thing that can unblock tasks; escalate.
                    if idle_ticks > 8 {
                        ns = *self.tick_sizes.iter().max().unwrap() * (idle_ticks as i64 - 7).min(1 << 20);
                    }
                    if idle_ticks > 200 {
                        return DriveEnd::Stuck;
                    }
                }
                self.advance(ns);
            } else {
                self.sched.step().await;
                match &self.progress {
                    None => idle_ticks = 0,
                    Some(p) => {
                        let now = Some(p());
                        if now != last_progress {
                            last_progress = now;
                            idle_ticks = 0;
                        }
                    }
                }
            }
            on_step(self);
        }
    }
}

pub fn policy_from(rng: &mut ChaCha8Rng) -> Policy {
    match rng.gen_range(0..10) {
        0 => Policy::Fifo,
        1..=5 => Policy::Uniform,
        6..=7 => Policy::Sticky(rng.gen_range(40..95)),
        _ => Policy::Lifo(rng.gen_range(30..90)),
    }
}

/// Common epilogue: packs a finished primitive run into a `CaseResult`.
pub fn finish<E>(
    seed: u64,
    mode: &str,
    sched: &Sched,
    hist: &SharedHist<E>,
    sim_ns: i128,
    nontrivial: bool,
    states: Vec<u64>,
    summary: serde_json::Value,
    harness_error: Option<String>,
) -> (CaseResult, Vec<String>) {
    let h = hist.lock().unwrap();
    // A director ran out of its step budget: the run was cut short.  What was observed counts
    // (violations stand), what was still in progress gets no verdict - in particular tasks which
    // are still alive are not a harness problem then.
    let cut_short = sched.step_limit_hit();
    let mut probes = h.probes.clone();
    if cut_short {
        *probes.entry("step_budget_exhausted".into()).or_default() += 1;
    }
    let harness_error = if cut_short { None } else { harness_error };
    (
        CaseResult {
            seed,
            mode: mode.into(),
            log_fp: h.log.fingerprint(),
            sched_fp: sched.fingerprint(),
            steps: sched.steps(),
            events: h.log.seq(),
            sim_ms: (sim_ns / 1_000_000) as u64,
            nontrivial,
            faults: h.faults.clone(),
            probes,
            abstract_states: states,
            violations: h.violations.clone(),
            panics: vec![],
            harness_error,
            summary,
            replay: None,
            draws: Default::default(),
        },
        h.log.lines(),
    )
}

/// Runs one primitive scenario by name.
pub fn run_case(mode: &str, seed: u64, keep_log: bool) -> (CaseResult, Vec<String>) {
    if mode == "abandon" && abandon::abandons(seed) {
        // The expected end of this run is the scope aborting the process (see prim/abandon.rs).
        let r = crate::kit::entropy::isolated_or_signal(seed, libc::SIGABRT, || {
            let (mut r, log) = run_case_inner(mode, seed, keep_log);
            r.draws = crate::kit::tape::draws();
            (r, log)
        });
        return match r {
            Ok(x) => x,
            Err(_) => {
                let hist: SharedHist<abandon::Ev> = new_hist(keep_log);
                hist.note("the caller dropped the scope's future while tasks of the scope were running: the process aborted (expected)".into());
                hist.probe("abandoned_scope_aborted_the_process");
                hist.fault("scope_future_dropped");
                let sched = Sched::new(seed, Policy::Fifo, false);
                finish(seed, "abandon", &sched, &hist, 0, true, vec![1], serde_json::json!({"abandon": true, "aborted": true}), None)
            }
        };
    }
    crate::kit::entropy::isolated(seed, || {
        let (mut r, log) = run_case_inner(mode, seed, keep_log);
        r.draws = crate::kit::tape::draws();
        (r, log)
    })
}

fn run_case_inner(mode: &str, seed: u64, keep_log: bool) -> (CaseResult, Vec<String>) {
    let mut rng = kit::stream(seed, "prim-policy");
    let sched = Rc::new(Sched::new(seed, policy_from(&mut rng), false));
    kit::panics::take();
    let mode2 = mode.to_string();
    let ((mut res, log), rt) = run_sim(seed, sched.clone(), move |sched| async move {
        match mode2.as_str() {
            "limiter" => limiter::run(seed, sched, keep_log).await,
            "channel" => channel::run(seed, sched, keep_log).await,
            "scopes" => scopes::run(seed, sched, keep_log).await,
            "abandon" => abandon::run(seed, sched, keep_log).await,
            "store" => store::run(seed, sched, keep_log).await,
            "fetch" => fetch::run(seed, sched, keep_log).await,
            "addrs" => addrs::run(seed, sched, keep_log).await,
            "addrs-node" => addrs::run_with(seed, sched, keep_log, true).await,
            "pool" => pool::run(seed, sched, keep_log).await,
            m => panic!("unknown prim mode {m}"),
        }
    });
    res.panics = kit::panics::take();
    if let Err(e) = rt {
        // Tasks stuck because of the very violation that was recorded are not a harness problem.
        if res.violations.is_empty() && !res.probes.contains_key("step_budget_exhausted") {
            res.harness_error.get_or_insert(e);
        }
    }
    (res, log)
}
