//! C17: random task trees on the real `scope::run!` under the gate scheduler.
//!
//! A generated program is a tree of tasks (main / background, tasks spawning tasks, nested
//! scopes, joins), each a short script of steps; the caller's context carries a deadline the
//! director eventually passes.  Oracle over the event log (start / end / observed-active per task
//! vs. the return of `scope::run!`):
//!  A. a scope returns only after every task of it (and of scopes nested in it) has ended;
//!  B. result = root's value iff nobody failed; otherwise the error of the task that failed first
//!     (at await-point granularity a failure is atomic: body returns -> set_err in one poll);
//!     a panic in any task is re-raised, after all tasks ended;
//!  C. the scope's context is inactive from the event on at which a task failed, the last main
//!     task completed, or `cancel()` was called;
//!  D. the program terminates once the caller's deadline has passed (cancellation reaches every
//!     descendant context).
use std::{future::Future, pin::Pin, rc::Rc, sync::Arc};

use rand::Rng;
use rand_chacha::ChaCha8Rng;
use serde_json::json;
use zksync_concurrency::{ctx, scope, time, verif::{sched_point, tokio_shim as gtokio}};

use super::{finish, new_hist, Director, DriveEnd, HistExt, SharedHist};
use crate::{cli::CaseResult, kit::{self, Sched}};

#[derive(Debug, Clone, Copy, PartialEq, Eq)]
pub enum Outcome {
    Ok,
    Err(u32),
    Panic,
}

#[derive(Debug, Clone)]
pub enum Ev {
    ScopeStart { scope: u32, parent_task: Option<u32> },
    /// Logged by the spawner right before the spawn (the task holds its guards from here on).
    TaskSpawn { scope: u32, task: u32, main: bool },
    TaskStart { scope: u32, task: u32, main: bool },
    TaskEnd { scope: u32, task: u32, main: bool, outcome: Outcome },
    Active { scope: u32, task: u32, active: bool },
    CancelCalled { scope: u32, task: u32 },
    ScopeReturn { scope: u32, outcome: Outcome },
}

#[derive(Debug, Clone)]
enum Step {
    Yield,
    Sleep(i64),
    Check,
    WaitCancel,
    CancelScope,
    Spawn { child: Box<TaskSpec>, join: bool },
    Nested { scope: Box<ScopeSpec>, propagate: bool },
}

#[derive(Debug, Clone)]
struct TaskSpec {
    id: u32,
    main: bool,
    steps: Vec<Step>,
    outcome: Outcome,
}

#[derive(Debug, Clone)]
struct ScopeSpec {
    id: u32,
    root: TaskSpec,
    timeout_ns: Option<i64>,
}

struct Gen {
    rng: ChaCha8Rng,
    next_task: u32,
    next_scope: u32,
    budget: i32,
}

impl Gen {
    fn task(&mut self, main: bool, depth: u32) -> TaskSpec {
        self.next_task += 1;
        let id = self.next_task;
        self.budget -= 1;
        let nsteps = self.rng.gen_range(0..6);
        let mut steps = vec![];
        for _ in 0..nsteps {
            let s = match self.rng.gen_range(0..100) {
                0..=24 => Step::Yield,
                25..=36 => Step::Sleep(self.rng.gen_range(1..2000)),
                37..=51 => Step::Check,
                52..=56 if !main => Step::WaitCancel,
                57..=59 => Step::CancelScope,
                60..=84 if self.budget > 0 && depth < 4 => {
                    // Background tasks only spawn background tasks (the API cannot prevent the
                    // opposite, but then "all main tasks completed" is not well defined).
                    let child_main = main && self.rng.gen_range(0..100) < 60;
                    Step::Spawn {
                        child: Box::new(self.task(child_main, depth + 1)),
                        join: self.rng.gen_range(0..100) < 30,
                    }
                }
                85..=94 if self.budget > 1 && depth < 3 => Step::Nested {
                    scope: Box::new(self.scope(depth + 1)),
                    propagate: self.rng.gen_range(0..100) < 60,
                },
                _ => Step::Yield,
            };
            steps.push(s);
        }
        if !main && self.rng.gen_range(0..100) < 40 {
            steps.push(Step::WaitCancel);
        }
        let outcome = match self.rng.gen_range(0..100) {
            0..=69 => Outcome::Ok,
            70..=93 => Outcome::Err(id),
            _ => Outcome::Panic,
        };
        TaskSpec { id, main, steps, outcome }
    }

    fn scope(&mut self, depth: u32) -> ScopeSpec {
        self.next_scope += 1;
        let id = self.next_scope;
        let timeout_ns = if self.rng.gen_range(0..100) < 35 { Some(self.rng.gen_range(1..5000)) } else { None };
        ScopeSpec { id, root: self.task(true, depth), timeout_ns }
    }
}

type TErr = u32;
type BoxFut<'a, T> = Pin<Box<dyn 'a + Send + Future<Output = T>>>;

/// Logs `ScopeReturn{Panic}` if the scope's `run!` unwinds through it.
struct ReturnGuard {
    scope: u32,
    hist: SharedHist<Ev>,
    done: bool,
}

impl Drop for ReturnGuard {
    fn drop(&mut self) {
        if !self.done && std::thread::panicking() {
            self.hist.rec(Ev::ScopeReturn { scope: self.scope, outcome: Outcome::Panic });
        }
    }
}

const CANCELED_BASE: u32 = 100_000;

fn run_scope<'a>(parent: &'a ctx::Ctx, spec: ScopeSpec, parent_task: Option<u32>, hist: SharedHist<Ev>) -> BoxFut<'a, Result<u32, TErr>> {
    Box::pin(async move {
        let cctx;
        let pctx = match spec.timeout_ns {
            Some(d) => {
                cctx = parent.with_timeout(time::Duration::nanoseconds(d));
                &cctx
            }
            None => parent,
        };
        let sid = spec.id;
        hist.rec(Ev::ScopeStart { scope: sid, parent_task });
        let mut guard = ReturnGuard { scope: sid, hist: hist.clone(), done: false };
        let h2 = hist.clone();
        let root = spec.root;
        hist.rec(Ev::TaskSpawn { scope: sid, task: root.id, main: true });
        let res: Result<u32, TErr> = scope::run!(pctx, |ctx, s| run_task(ctx, s, sid, root, h2)).await;
        guard.done = true;
        hist.rec(Ev::ScopeReturn {
            scope: sid,
            outcome: match res {
                Ok(_) => Outcome::Ok,
                Err(e) => Outcome::Err(e),
            },
        });
        res
    })
}

fn run_task<'env>(
    ctx: &'env ctx::Ctx,
    s: &'env scope::Scope<'env, TErr>,
    sid: u32,
    spec: TaskSpec,
    hist: SharedHist<Ev>,
) -> BoxFut<'env, Result<u32, TErr>> {
    Box::pin(async move {
        let (id, main) = (spec.id, spec.main);
        hist.rec(Ev::TaskStart { scope: sid, task: id, main });
        // A panic of a nested scope unwinds through this task: that is a panic of this task.
        struct TaskGuard {
            sid: u32,
            id: u32,
            main: bool,
            hist: SharedHist<Ev>,
            ended: std::sync::atomic::AtomicBool,
        }
        impl Drop for TaskGuard {
            fn drop(&mut self) {
                if !self.ended.load(std::sync::atomic::Ordering::SeqCst) && std::thread::panicking() {
                    self.hist.rec(Ev::TaskEnd { scope: self.sid, task: self.id, main: self.main, outcome: Outcome::Panic });
                }
            }
        }
        let tg = TaskGuard { sid, id, main, hist: hist.clone(), ended: false.into() };
        let end = |o: Outcome| {
            tg.ended.store(true, std::sync::atomic::Ordering::SeqCst);
            hist.rec(Ev::TaskEnd { scope: sid, task: id, main, outcome: o });
        };
        let canceled = CANCELED_BASE + id;
        for step in spec.steps {
            match step {
                Step::Yield => sched_point().await,
                Step::Sleep(ns) => {
                    if ctx.sleep(time::Duration::nanoseconds(ns)).await.is_err() {
                        end(Outcome::Err(canceled));
                        return Err(canceled);
                    }
                }
                Step::Check => {
                    hist.rec(Ev::Active { scope: sid, task: id, active: ctx.is_active() });
                    sched_point().await;
                }
                Step::WaitCancel => {
                    ctx.canceled().await;
                    hist.rec(Ev::Active { scope: sid, task: id, active: ctx.is_active() });
                }
                Step::CancelScope => {
                    hist.rec(Ev::CancelCalled { scope: sid, task: id });
                    s.cancel();
                }
                Step::Spawn { child, join } => {
                    let h = hist.clone();
                    let child = *child;
                    hist.rec(Ev::TaskSpawn { scope: sid, task: child.id, main: child.main });
                    let handle = if child.main {
                        s.spawn(run_task(ctx, s, sid, child, h))
                    } else {
                        s.spawn_bg(run_task(ctx, s, sid, child, h))
                    };
                    if join && handle.join(ctx).await.is_err() {
                        end(Outcome::Err(canceled));
                        return Err(canceled);
                    }
                }
                Step::Nested { scope, propagate } => {
                    let r = run_scope(ctx, *scope, Some(id), hist.clone()).await;
                    if r.is_err() && propagate {
                        end(Outcome::Err(id));
                        return Err(id);
                    }
                }
            }
        }
        match spec.outcome {
            Outcome::Ok => {
                end(Outcome::Ok);
                Ok(id)
            }
            Outcome::Err(e) => {
                end(Outcome::Err(e));
                Err(e)
            }
            Outcome::Panic => {
                end(Outcome::Panic);
                panic!("simulated task panic (task {id})");
            }
        }
    })
}

pub async fn run(seed: u64, sched: Rc<Sched>, keep_log: bool) -> (CaseResult, Vec<String>) {
    let mut g = Gen { rng: kit::stream(seed, "scopes"), next_task: 0, next_scope: 0, budget: 0 };
    g.budget = g.rng.gen_range(2..13);
    let top = g.scope(0);
    let n_tasks = g.next_task;
    let n_scopes = g.next_scope;
    let clock = ctx::ManualClock::new();
    let root = Arc::new(ctx::test_root(&clock));
    let hist: SharedHist<Ev> = new_hist(keep_log);
    hist.note(format!("program: {top:?}"));
    // Caller-side deadline: sometimes early (cancellation in mid-flight), always finite.
    let deadline_ns: i64 = if g.rng.gen_range(0..100) < 40 { g.rng.gen_range(1..3000) } else { 50_000 };
    let (h2, root2) = (hist.clone(), root.clone());
    let handle = gtokio::spawn(async move {
        let cctx = root2.with_timeout(time::Duration::nanoseconds(deadline_ns));
        let _ = run_scope(&cctx, top, None, h2).await;
    });
    let mut d = Director::new(seed, sched.clone(), clock.clone());
    d.tick_pct = g.rng.gen_range(2..25);
    d.tick_sizes = vec![1, 50, 700, 3000];
    d.max_steps = 200_000;
    let end = d.drive(|| handle.is_finished(), |_| {}).await;
    let mut harness_error = None;
    match end {
        DriveEnd::Done => {}
        DriveEnd::Stuck | DriveEnd::StepLimit => {
            hist.violation(
                "C17",
                "scope_never_terminated",
                format!("the program did not terminate although the caller's deadline ({deadline_ns} ns) passed at simulated time {} ns", d.sim_ns),
            );
        }
    }
    // The watcher tasks of contexts created along the way finish once their context is dropped.
    let _ = d.drive(|| sched.live() == 0, |_| {}).await;
    if sched.live() != 0 && hist.lock().unwrap().violations.is_empty() {
        harness_error = Some(format!("{} tasks alive after the program returned", sched.live()));
    }
    check(&hist);
    let (states, panics, errs) = {
        let h = hist.lock().unwrap();
        let mut st = vec![];
        let mut panics = 0;
        let mut errs = 0;
        // Abstract state: (first terminal event kind, tasks alive at that event, scopes).
        let mut alive = 0i64;
        let mut first: Option<u64> = None;
        for (_, e) in &h.events {
            match e {
                Ev::TaskStart { .. } => alive += 1,
                Ev::TaskEnd { outcome, .. } => {
                    alive -= 1;
                    match outcome {
                        Outcome::Ok => {}
                        Outcome::Err(c) => {
                            errs += 1;
                            first.get_or_insert(if *c >= CANCELED_BASE { 2 } else { 1 } * 100 + alive.clamp(0, 20) as u64);
                        }
                        Outcome::Panic => {
                            panics += 1;
                            first.get_or_insert(300 + alive.clamp(0, 20) as u64);
                        }
                    }
                }
                _ => {}
            }
        }
        st.push(kit::mix(first.unwrap_or(0), kit::mix(n_tasks as u64, n_scopes as u64)));
        (st, panics, errs)
    };
    if panics > 0 {
        hist.probe("task_panicked");
    }
    if n_scopes > 1 {
        hist.probe("nested_scope");
    }
    if errs > 1 {
        hist.probe("several_failures");
    }
    let he = if hist.lock().unwrap().violations.is_empty() { harness_error } else { None };
    finish(
        seed,
        "scopes",
        &sched,
        &hist,
        d.sim_ns,
        n_tasks >= 2,
        states,
        json!({"tasks": n_tasks, "scopes": n_scopes, "caller_deadline_ns": deadline_ns, "failed_tasks": errs, "panicked_tasks": panics}),
        he,
    )
}

fn check(hist: &SharedHist<Ev>) {
    let events = hist.lock().unwrap().events.clone();
    // Scope tree: scope -> parent task -> scope of that task.
    let mut scope_parent_task: std::collections::BTreeMap<u32, Option<u32>> = Default::default();
    let mut task_scope: std::collections::BTreeMap<u32, u32> = Default::default();
    for (_, e) in &events {
        match e {
            Ev::ScopeStart { scope, parent_task } => {
                scope_parent_task.insert(*scope, *parent_task);
            }
            Ev::TaskSpawn { scope, task, .. } => {
                task_scope.insert(*task, *scope);
            }
            _ => {}
        }
    }
    // Is scope `inner` equal to or nested (transitively) in scope `outer`?
    let within = |mut inner: u32, outer: u32| -> bool {
        loop {
            if inner == outer {
                return true;
            }
            match scope_parent_task.get(&inner).copied().flatten().and_then(|t| task_scope.get(&t).copied()) {
                Some(s) => inner = s,
                None => return false,
            }
        }
    };
    let scopes: Vec<u32> = scope_parent_task.keys().copied().collect();
    for sid in scopes {
        let mut started: Vec<u32> = vec![];
        let mut ended: Vec<u32> = vec![];
        let mut mains_started = 0;
        let mut mains_ended = 0;
        let mut first_failure: Option<(u64, Outcome)> = None;
        let mut any_panic = false;
        let mut cancelled_at: Option<(u64, &'static str)> = None;
        let mut root_task: Option<u32> = None;
        let mut returned: Option<u64> = None;
        for (no, e) in &events {
            match e {
                Ev::TaskStart { scope, task, .. } if within(*scope, sid) => {
                    if returned.is_some() {
                        hist.violation("C17", "task_after_scope_returned", format!("scope {sid}: task {task} started at event {no}, after the scope returned at event {}", returned.unwrap()));
                    }
                }
                Ev::TaskSpawn { scope, task, main } if within(*scope, sid) => {
                    started.push(*task);
                    if *scope == sid {
                        root_task.get_or_insert(*task);
                        if *main {
                            mains_started += 1;
                        }
                    }
                }
                Ev::TaskEnd { scope, task, main, outcome } if within(*scope, sid) => {
                    if returned.is_some() {
                        hist.violation("C17", "task_outlives_scope", format!("scope {sid}: task {task} ended at event {no}, after the scope returned at event {}", returned.unwrap()));
                    }
                    ended.push(*task);
                    if *scope == sid {
                        if *main {
                            mains_ended += 1;
                            if mains_ended == mains_started && cancelled_at.is_none() {
                                cancelled_at = Some((*no, "all main tasks completed"));
                            }
                        }
                        match outcome {
                            Outcome::Ok => {}
                            Outcome::Err(_) => {
                                first_failure.get_or_insert((*no, *outcome));
                                cancelled_at.get_or_insert((*no, "a task failed"));
                            }
                            Outcome::Panic => {
                                any_panic = true;
                                first_failure.get_or_insert((*no, *outcome));
                                cancelled_at.get_or_insert((*no, "a task panicked"));
                            }
                        }
                    }
                }
                Ev::CancelCalled { scope, .. } if *scope == sid => {
                    cancelled_at.get_or_insert((*no, "cancel() was called"));
                }
                Ev::Active { scope, task, active } if *scope == sid => {
                    if let (true, Some((at, why))) = (*active, cancelled_at) {
                        hist.violation(
                            "C17",
                            "context_not_cancelled",
                            format!("scope {sid}: task {task} still sees an active context at event {no}, although {why} at event {at}"),
                        );
                    }
                }
                Ev::ScopeReturn { scope, outcome } if *scope == sid => {
                    returned = Some(*no);
                    let missing: Vec<u32> = started.iter().filter(|t| !ended.contains(t)).copied().collect();
                    if !missing.is_empty() {
                        hist.violation("C17", "returned_before_tasks_ended", format!("scope {sid} returned at event {no} while tasks {missing:?} were still running"));
                    }
                    let want = if any_panic {
                        Outcome::Panic
                    } else {
                        match first_failure {
                            Some((_, o)) => o,
                            None => Outcome::Ok,
                        }
                    };
                    if *outcome != want {
                        hist.violation(
                            "C17",
                            "wrong_scope_result",
                            format!("scope {sid} returned {outcome:?}, expected {want:?} (first failure: {first_failure:?}, panic: {any_panic})"),
                        );
                    }
                }
                _ => {}
            }
        }
    }
}
