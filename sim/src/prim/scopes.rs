//! C17: random task trees on the real `scope::run!` under the gate scheduler.
//!
//! A generated program is a tree of tasks (main / background, tasks spawning tasks, nested
//! scopes, joins), each a short script of steps; the caller's context carries a deadline the
//! director eventually passes.  Oracle over the event log (start / end / observed-active per task
//! vs. the return of `scope::run!`):
//!  A. a scope returns only after every task of it (and of scopes nested in it) has ended;
//!  B. result = root's value iff nobody failed; otherwise the error of the task that failed first
//!     (at await-point granularity a failure is atomic: body returns -> set_err in one poll);
//!     a panic in any task is re-raised, after all tasks ended;
//!  C. the scope's context is inactive from the event on at which a task failed, the last main
//!     task completed, or `cancel()` was called;
//!  D. the program terminates once the caller's deadline has passed (cancellation reaches every
//!     descendant context).
//!
//! Half of the programs also contain *blocking* tasks and `run_blocking!` scopes.  Those run on
//! OS threads which only execute while the gate scheduler has granted them the baton (hook H1),
//! with preemption points inside `Once::send`, `set_err` and `run_blocking`, so the windows
//! between "the routine returned", "the error was recorded" and "the guards were released" are
//! interleaved with other tasks.  For such programs a failure is an interval [routine returned,
//! task resolved] and rule B becomes:
//!  B'. the result is the error of a failing task X such that no other failing task was resolved
//!      before X's routine returned, and
//!  B''. (causality) an error which only reports that the scope's context was cancelled can be
//!      the result only if something other than a task failure may have cancelled the context
//!      before that task ended (an explicit `cancel()`, the last main task completing with
//!      success, a deadline, cancellation of an enclosing scope).
use std::{future::Future, pin::Pin, rc::Rc, sync::Arc};

use rand::Rng;
use crate::kit::SimRng as ChaCha8Rng;
use serde_json::json;
use zksync_concurrency::{ctx, scope, time, verif::{self, sched_point, tokio_shim as gtokio}};

use super::{finish, new_hist, Director, DriveEnd, HistExt, SharedHist};
use crate::{cli::CaseResult, kit::{self, Sched}};

#[derive(Debug, Clone, Copy, PartialEq, Eq)]
pub enum Outcome {
    Ok,
    Err(u32),
    Panic,
}

#[derive(Debug, Clone)]
pub enum Ev {
    ScopeStart { scope: u32, parent_task: Option<u32>, timeout: bool },
    /// Logged by the spawner right before the spawn (the task holds its guards from here on).
    TaskSpawn { scope: u32, task: u32, main: bool },
    /// `entity`: id of the simulated blocking thread for blocking tasks.
    TaskStart { scope: u32, task: u32, main: bool, entity: Option<u64> },
    /// The task's routine is about to return `outcome` (`t_ns`: simulated time).
    TaskEnd { scope: u32, task: u32, main: bool, outcome: Outcome, t_ns: i128 },
    /// The blocking thread `entity` has completely finished (error recorded, guards released).
    BlockingDone { entity: u64 },
    Active { scope: u32, task: u32, active: bool },
    CancelCalled { scope: u32, task: u32 },
    ScopeReturn { scope: u32, outcome: Outcome },
}

#[derive(Debug, Clone)]
enum Step {
    Yield,
    Sleep(i64),
    Check,
    WaitCancel,
    CancelScope,
    Spawn { child: Box<TaskSpec>, join: bool },
    Nested { scope: Box<ScopeSpec>, propagate: bool },
}

#[derive(Debug, Clone)]
struct TaskSpec {
    id: u32,
    main: bool,
    blocking: bool,
    steps: Vec<Step>,
    outcome: Outcome,
}

#[derive(Debug, Clone)]
struct ScopeSpec {
    id: u32,
    blocking: bool,
    root: TaskSpec,
    timeout_ns: Option<i64>,
}

struct Gen {
    rng: ChaCha8Rng,
    next_task: u32,
    next_scope: u32,
    budget: i32,
    /// Percentage of blocking tasks among spawned children (0: purely async program).
    blocking_pct: u32,
}

impl Gen {
    fn task(&mut self, main: bool, depth: u32, blocking: bool) -> TaskSpec {
        self.next_task += 1;
        let id = self.next_task;
        self.budget -= 1;
        let nsteps = self.rng.gen_range(0..6);
        let mut steps = vec![];
        for _ in 0..nsteps {
            let s = match self.rng.gen_range(0..100) {
                0..=24 => Step::Yield,
                25..=36 => Step::Sleep(self.rng.gen_range(1..2000)),
                37..=51 => Step::Check,
                52..=56 if !main => Step::WaitCancel,
                57..=59 => Step::CancelScope,
                60..=84 if self.budget > 0 && depth < 4 => {
                    // Background tasks only spawn background tasks (the API cannot prevent the
                    // opposite, but then "all main tasks completed" is not well defined).
                    let child_main = main && self.rng.gen_range(0..100) < 60;
                    let child_blocking = self.rng.gen_range(0..100) < self.blocking_pct;
                    Step::Spawn {
                        child: Box::new(self.task(child_main, depth + 1, child_blocking)),
                        join: self.rng.gen_range(0..100) < 30,
                    }
                }
                85..=94 if self.budget > 1 && depth < 3 => Step::Nested {
                    // A blocking task nests blocking scopes, an async task async scopes.
                    scope: Box::new(self.scope(depth + 1, blocking)),
                    propagate: self.rng.gen_range(0..100) < 60,
                },
                _ => Step::Yield,
            };
            steps.push(s);
        }
        if !main && self.rng.gen_range(0..100) < 40 {
            steps.push(Step::WaitCancel);
        }
        let outcome = match self.rng.gen_range(0..100) {
            0..=69 => Outcome::Ok,
            70..=93 => Outcome::Err(id),
            _ => Outcome::Panic,
        };
        TaskSpec { id, main, blocking, steps, outcome }
    }

    fn scope(&mut self, depth: u32, blocking: bool) -> ScopeSpec {
        self.next_scope += 1;
        let id = self.next_scope;
        let timeout_ns = if self.rng.gen_range(0..100) < 35 { Some(self.rng.gen_range(1..5000)) } else { None };
        ScopeSpec { id, blocking, root: self.task(true, depth, blocking), timeout_ns }
    }
}

type TErr = u32;
type BoxFut<'a, T> = Pin<Box<dyn 'a + Send + Future<Output = T>>>;

/// What every task of a program shares: the event log and the origin of simulated time.
#[derive(Clone)]
struct Cx {
    hist: SharedHist<Ev>,
    t0: time::Instant,
}

impl std::ops::Deref for Cx {
    type Target = SharedHist<Ev>;
    fn deref(&self) -> &Self::Target {
        &self.hist
    }
}

impl Cx {
    fn t_ns(&self, ctx: &ctx::Ctx) -> i128 {
        (ctx.now() - self.t0).whole_nanoseconds()
    }
}

/// Logs `ScopeReturn{Panic}` if the scope's `run!` unwinds through it.
struct ReturnGuard {
    scope: u32,
    hist: SharedHist<Ev>,
    done: bool,
}

impl Drop for ReturnGuard {
    fn drop(&mut self) {
        if !self.done && std::thread::panicking() {
            self.hist.rec(Ev::ScopeReturn { scope: self.scope, outcome: Outcome::Panic });
        }
    }
}

/// A panic of a nested scope unwinds through the task: that is a panic of the task.
struct TaskGuard<'a> {
    sid: u32,
    id: u32,
    main: bool,
    cx: Cx,
    ctx: &'a ctx::Ctx,
    ended: std::sync::atomic::AtomicBool,
}

impl TaskGuard<'_> {
    fn end(&self, o: Outcome) {
        self.ended.store(true, std::sync::atomic::Ordering::SeqCst);
        let t_ns = self.cx.t_ns(self.ctx);
        self.cx.rec(Ev::TaskEnd { scope: self.sid, task: self.id, main: self.main, outcome: o, t_ns });
    }
}

impl Drop for TaskGuard<'_> {
    fn drop(&mut self) {
        if !self.ended.load(std::sync::atomic::Ordering::SeqCst) && std::thread::panicking() {
            let t_ns = self.cx.t_ns(self.ctx);
            self.cx.rec(Ev::TaskEnd { scope: self.sid, task: self.id, main: self.main, outcome: Outcome::Panic, t_ns });
        }
    }
}

const CANCELED_BASE: u32 = 100_000;

fn outcome_of(res: &Result<u32, TErr>) -> Outcome {
    match res {
        Ok(_) => Outcome::Ok,
        Err(e) => Outcome::Err(*e),
    }
}

fn run_scope<'a>(parent: &'a ctx::Ctx, spec: ScopeSpec, parent_task: Option<u32>, hist: Cx) -> BoxFut<'a, Result<u32, TErr>> {
    Box::pin(async move {
        let cctx;
        let pctx = match spec.timeout_ns {
            Some(d) => {
                cctx = parent.with_timeout(time::Duration::nanoseconds(d));
                &cctx
            }
            None => parent,
        };
        let sid = spec.id;
        hist.rec(Ev::ScopeStart { scope: sid, parent_task, timeout: spec.timeout_ns.is_some() });
        let mut guard = ReturnGuard { scope: sid, hist: hist.hist.clone(), done: false };
        let h2 = hist.clone();
        let root = spec.root;
        hist.rec(Ev::TaskSpawn { scope: sid, task: root.id, main: true });
        let res: Result<u32, TErr> = scope::run!(pctx, |ctx, s| run_task(ctx, s, sid, root, h2)).await;
        guard.done = true;
        hist.rec(Ev::ScopeReturn { scope: sid, outcome: outcome_of(&res) });
        res
    })
}

/// Same on a (simulated) blocking thread, with `run_blocking!`.
fn run_scope_blocking(parent: &ctx::Ctx, spec: ScopeSpec, parent_task: Option<u32>, hist: Cx) -> Result<u32, TErr> {
    let cctx;
    let pctx = match spec.timeout_ns {
        Some(d) => {
            cctx = parent.with_timeout(time::Duration::nanoseconds(d));
            &cctx
        }
        None => parent,
    };
    let sid = spec.id;
    hist.rec(Ev::ScopeStart { scope: sid, parent_task, timeout: spec.timeout_ns.is_some() });
    let mut guard = ReturnGuard { scope: sid, hist: hist.hist.clone(), done: false };
    let h2 = hist.clone();
    let root = spec.root;
    hist.rec(Ev::TaskSpawn { scope: sid, task: root.id, main: true });
    let res: Result<u32, TErr> = scope::run_blocking!(pctx, |ctx, s| run_task_blocking(ctx, s, sid, root, h2));
    guard.done = true;
    hist.rec(Ev::ScopeReturn { scope: sid, outcome: outcome_of(&res) });
    res
}

/// Spawns `child` (async or blocking, main or background) in `s`.
fn spawn_child<'env>(
    ctx: &'env ctx::Ctx,
    s: &'env scope::Scope<'env, TErr>,
    sid: u32,
    child: TaskSpec,
    hist: &Cx,
) -> scope::JoinHandle<'env, u32> {
    let h = hist.clone();
    hist.rec(Ev::TaskSpawn { scope: sid, task: child.id, main: child.main });
    match (child.blocking, child.main) {
        (false, true) => s.spawn(run_task(ctx, s, sid, child, h)),
        (false, false) => s.spawn_bg(run_task(ctx, s, sid, child, h)),
        (true, true) => s.spawn_blocking(move || run_task_blocking(ctx, s, sid, child, h)),
        (true, false) => s.spawn_bg_blocking(move || run_task_blocking(ctx, s, sid, child, h)),
    }
}

fn run_task<'env>(
    ctx: &'env ctx::Ctx,
    s: &'env scope::Scope<'env, TErr>,
    sid: u32,
    spec: TaskSpec,
    hist: Cx,
) -> BoxFut<'env, Result<u32, TErr>> {
    Box::pin(async move {
        let (id, main) = (spec.id, spec.main);
        hist.rec(Ev::TaskStart { scope: sid, task: id, main, entity: None });
        let tg = TaskGuard { sid, id, main, cx: hist.clone(), ctx, ended: false.into() };
        let canceled = CANCELED_BASE + id;
        for step in spec.steps {
            match step {
                Step::Yield => sched_point().await,
                Step::Sleep(ns) => {
                    if ctx.sleep(time::Duration::nanoseconds(ns)).await.is_err() {
                        tg.end(Outcome::Err(canceled));
                        return Err(canceled);
                    }
                }
                Step::Check => {
                    hist.rec(Ev::Active { scope: sid, task: id, active: ctx.is_active() });
                    sched_point().await;
                }
                Step::WaitCancel => {
                    ctx.canceled().await;
                    hist.rec(Ev::Active { scope: sid, task: id, active: ctx.is_active() });
                }
                Step::CancelScope => {
                    hist.rec(Ev::CancelCalled { scope: sid, task: id });
                    s.cancel();
                }
                Step::Spawn { child, join } => {
                    let handle = spawn_child(ctx, s, sid, *child, &hist);
                    if join && handle.join(ctx).await.is_err() {
                        tg.end(Outcome::Err(canceled));
                        return Err(canceled);
                    }
                }
                Step::Nested { scope, propagate } => {
                    let r = run_scope(ctx, *scope, Some(id), hist.clone()).await;
                    if r.is_err() && propagate {
                        tg.end(Outcome::Err(id));
                        return Err(id);
                    }
                }
            }
        }
        match spec.outcome {
            Outcome::Ok => {
                tg.end(Outcome::Ok);
                Ok(id)
            }
            Outcome::Err(e) => {
                tg.end(Outcome::Err(e));
                Err(e)
            }
            Outcome::Panic => {
                tg.end(Outcome::Panic);
                panic!("simulated task panic (task {id})");
            }
        }
    })
}

/// The same script executed by a blocking task: awaits become `.block()`, yields become
/// preemption points.
fn run_task_blocking<'env>(
    ctx: &'env ctx::Ctx,
    s: &'env scope::Scope<'env, TErr>,
    sid: u32,
    spec: TaskSpec,
    hist: Cx,
) -> Result<u32, TErr> {
    let (id, main) = (spec.id, spec.main);
    hist.rec(Ev::TaskStart { scope: sid, task: id, main, entity: verif::current_blocking_id() });
    let tg = TaskGuard { sid, id, main, cx: hist.clone(), ctx, ended: false.into() };
    let canceled = CANCELED_BASE + id;
    for step in spec.steps {
        match step {
            Step::Yield => verif::preempt(),
            Step::Sleep(ns) => {
                if ctx.sleep(time::Duration::nanoseconds(ns)).block().is_err() {
                    tg.end(Outcome::Err(canceled));
                    return Err(canceled);
                }
            }
            Step::Check => {
                hist.rec(Ev::Active { scope: sid, task: id, active: ctx.is_active() });
                verif::preempt();
            }
            Step::WaitCancel => {
                ctx.canceled().block();
                hist.rec(Ev::Active { scope: sid, task: id, active: ctx.is_active() });
            }
            Step::CancelScope => {
                hist.rec(Ev::CancelCalled { scope: sid, task: id });
                s.cancel();
            }
            Step::Spawn { child, join } => {
                let handle = spawn_child(ctx, s, sid, *child, &hist);
                if join && handle.join(ctx).block().is_err() {
                    tg.end(Outcome::Err(canceled));
                    return Err(canceled);
                }
            }
            Step::Nested { scope, propagate } => {
                let r = run_scope_blocking(ctx, *scope, Some(id), hist.clone());
                if r.is_err() && propagate {
                    tg.end(Outcome::Err(id));
                    return Err(id);
                }
            }
        }
    }
    match spec.outcome {
        Outcome::Ok => {
            tg.end(Outcome::Ok);
            Ok(id)
        }
        Outcome::Err(e) => {
            tg.end(Outcome::Err(e));
            Err(e)
        }
        Outcome::Panic => {
            tg.end(Outcome::Panic);
            panic!("simulated task panic (task {id})");
        }
    }
}

pub async fn run(seed: u64, sched: Rc<Sched>, keep_log: bool) -> (CaseResult, Vec<String>) {
    let mut g = Gen { rng: kit::stream(seed, "scopes"), next_task: 0, next_scope: 0, budget: 0, blocking_pct: 0 };
    g.budget = g.rng.gen_range(2..13);
    g.blocking_pct = if g.rng.gen_range(0..100) < 50 { 0 } else { [20, 40, 70][g.rng.gen_range(0..3)] };
    let top_blocking = g.blocking_pct > 0 && g.rng.gen_range(0..100) < 35;
    let top = g.scope(0, top_blocking);
    let n_tasks = g.next_task;
    let n_scopes = g.next_scope;
    let clock = ctx::ManualClock::new();
    let root = Arc::new(ctx::test_root(&clock));
    let hist: SharedHist<Ev> = new_hist(keep_log);
    hist.note(format!("program: {top:?}"));
    let mixed = g.blocking_pct > 0;
    {
        let h = hist.clone();
        sched.on_blocking_done(Arc::new(move |entity| {
            h.rec(Ev::BlockingDone { entity });
        }));
    }
    let cx = Cx { hist: hist.clone(), t0: clock.now() };
    // Caller-side deadline: sometimes early (cancellation in mid-flight), always finite.
    let deadline_ns: i64 = if g.rng.gen_range(0..100) < 40 { g.rng.gen_range(1..3000) } else { 50_000 };
    let (h2, root2) = (cx.clone(), root.clone());
    let handle = if top_blocking {
        gtokio::task::spawn_blocking(move || {
            let cctx = root2.with_timeout(time::Duration::nanoseconds(deadline_ns));
            let _ = run_scope_blocking(&cctx, top, None, h2);
        })
    } else {
        gtokio::spawn(async move {
            let cctx = root2.with_timeout(time::Duration::nanoseconds(deadline_ns));
            let _ = run_scope(&cctx, top, None, h2).await;
        })
    };
    let mut d = Director::new(seed, sched.clone(), clock.clone());
    d.tick_pct = g.rng.gen_range(2..25);
    d.tick_sizes = vec![1, 50, 700, 3000];
    d.max_steps = 200_000;
    let end = d.drive(|| handle.is_finished(), |_| {}).await;
    let mut harness_error = None;
    match end {
        DriveEnd::Done => {}
        DriveEnd::Stuck | DriveEnd::StepLimit => {
            hist.violation(
                "C17",
                "scope_never_terminated",
                format!("the program did not terminate although the caller's deadline ({deadline_ns} ns) passed at simulated time {} ns", d.sim_ns),
            );
        }
    }
    // The watcher tasks of contexts created along the way finish once their context is dropped.
    let _ = d.drive(|| sched.live() == 0, |_| {}).await;
    if sched.live() != 0 && hist.lock().unwrap().violations.is_empty() {
        harness_error = Some(format!("{} tasks alive after the program returned", sched.live()));
    }
    check(&hist, mixed, deadline_ns as i128);
    let (states, panics, errs, blocking_tasks) = {
        let h = hist.lock().unwrap();
        let mut st = vec![];
        let mut panics = 0;
        let mut errs = 0;
        // Abstract state: (first terminal event kind, tasks alive at that event, scopes).
        let mut alive = 0i64;
        let mut first: Option<u64> = None;
        let mut blocking_tasks = 0;
        for (_, e) in &h.events {
            match e {
                Ev::TaskStart { entity, .. } => {
                    alive += 1;
                    if entity.is_some() {
                        blocking_tasks += 1;
                    }
                }
                Ev::TaskEnd { outcome, .. } => {
                    alive -= 1;
                    match outcome {
                        Outcome::Ok => {}
                        Outcome::Err(c) => {
                            errs += 1;
                            first.get_or_insert(if *c >= CANCELED_BASE { 2 } else { 1 } * 100 + alive.clamp(0, 20) as u64);
                        }
                        Outcome::Panic => {
                            panics += 1;
                            first.get_or_insert(300 + alive.clamp(0, 20) as u64);
                        }
                    }
                }
                _ => {}
            }
        }
        st.push(kit::mix(first.unwrap_or(0), kit::mix(n_tasks as u64, kit::mix(n_scopes as u64, blocking_tasks))));
        (st, panics, errs, blocking_tasks)
    };
    if blocking_tasks > 0 {
        hist.probe("blocking_task");
    }
    if top_blocking {
        hist.probe("blocking_top_scope");
    }
    if panics > 0 {
        hist.probe("task_panicked");
    }
    if n_scopes > 1 {
        hist.probe("nested_scope");
    }
    if errs > 1 {
        hist.probe("several_failures");
    }
    let he = if hist.lock().unwrap().violations.is_empty() { harness_error } else { None };
    finish(
        seed,
        "scopes",
        &sched,
        &hist,
        d.sim_ns,
        n_tasks >= 2,
        states,
        json!({"tasks": n_tasks, "scopes": n_scopes, "blocking_tasks": blocking_tasks, "caller_deadline_ns": deadline_ns, "failed_tasks": errs, "panicked_tasks": panics}),
        he,
    )
}

fn check(hist: &SharedHist<Ev>, mixed: bool, caller_deadline_ns: i128) {
    use std::collections::BTreeMap;
    let events = hist.lock().unwrap().events.clone();
    // Scope tree: scope -> parent task -> scope of that task.
    let mut scope_parent_task: BTreeMap<u32, Option<u32>> = Default::default();
    let mut task_scope: BTreeMap<u32, u32> = Default::default();
    let mut scope_timeout: BTreeMap<u32, bool> = Default::default();
    let mut task_entity: BTreeMap<u32, u64> = Default::default();
    let mut entity_task: BTreeMap<u64, u32> = Default::default();
    for (_, e) in &events {
        match e {
            Ev::ScopeStart { scope, parent_task, timeout } => {
                scope_parent_task.insert(*scope, *parent_task);
                scope_timeout.insert(*scope, *timeout);
            }
            Ev::TaskSpawn { scope, task, .. } => {
                task_scope.insert(*task, *scope);
            }
            Ev::TaskStart { task, entity: Some(en), .. } => {
                task_entity.insert(*task, *en);
                entity_task.insert(*en, *task);
            }
            _ => {}
        }
    }
    let parent_scope = |s: u32| scope_parent_task.get(&s).copied().flatten().and_then(|t| task_scope.get(&t).copied());
    // Is scope `inner` equal to or nested (transitively) in scope `outer`?
    let within = |mut inner: u32, outer: u32| -> bool {
        loop {
            if inner == outer {
                return true;
            }
            match parent_scope(inner) {
                Some(s) => inner = s,
                None => return false,
            }
        }
    };
    let scopes: Vec<u32> = scope_parent_task.keys().copied().collect();

    // Pass 1, per scope: when was each task's routine over (`TaskEnd`), when was the task
    // resolved (async: the same event; blocking: `BlockingDone` of its thread), and the earliest
    // event at which (a) anything at all, (b) something other than a task failure may have
    // cancelled the scope's own context.
    #[derive(Default, Clone)]
    struct Causes {
        /// Earliest event of any possible cancellation cause inside the scope itself.
        any: Option<u64>,
        /// Earliest event of a cause which is not a failure: cancel(), last main ended with Ok.
        external: Option<u64>,
    }
    let min_opt = |a: Option<u64>, b: Option<u64>| match (a, b) {
        (Some(x), Some(y)) => Some(x.min(y)),
        (x, None) => x,
        (None, y) => y,
    };
    let mut own: BTreeMap<u32, Causes> = Default::default();
    let mut ended_at: BTreeMap<u32, (u64, Outcome, i128)> = Default::default();
    let mut resolved_at: BTreeMap<u32, u64> = Default::default();
    for (no, e) in &events {
        match e {
            Ev::TaskEnd { task, outcome, t_ns, .. } => {
                ended_at.insert(*task, (*no, *outcome, *t_ns));
                if !task_entity.contains_key(task) {
                    resolved_at.insert(*task, *no);
                }
            }
            Ev::BlockingDone { entity } => {
                if let Some(t) = entity_task.get(entity) {
                    resolved_at.entry(*t).or_insert(*no);
                }
            }
            // Termination of the scope implies that every task of it has released its guards
            // (the finishing thread may still be on its way out).
            Ev::ScopeReturn { scope, .. } => {
                for (t, _) in task_scope.iter().filter(|(_, s)| *s == scope) {
                    if ended_at.contains_key(t) {
                        resolved_at.entry(*t).or_insert(*no);
                    }
                }
            }
            _ => {}
        }
    }
    let task_main: BTreeMap<u32, bool> = events
        .iter()
        .filter_map(|(_, e)| match e {
            Ev::TaskSpawn { task, main, .. } => Some((*task, *main)),
            _ => None,
        })
        .collect();
    let mut resolved_by_event: BTreeMap<u64, Vec<u32>> = Default::default();
    for (t, no) in &resolved_at {
        resolved_by_event.entry(*no).or_default().push(*t);
    }
    for &sid in &scopes {
        let mut c = Causes::default();
        let (mut mains_spawned, mut mains_ended) = (0, 0);
        for (no, e) in &events {
            match e {
                Ev::TaskSpawn { scope, main: true, .. } if *scope == sid => mains_spawned += 1,
                Ev::TaskEnd { scope, main, outcome, .. } if *scope == sid => {
                    if *outcome != Outcome::Ok {
                        c.any = min_opt(c.any, Some(*no));
                    }
                    if *main {
                        mains_ended += 1;
                        if mains_ended == mains_spawned {
                            c.any = min_opt(c.any, Some(*no));
                            if *outcome == Outcome::Ok {
                                c.external = min_opt(c.external, Some(*no));
                            }
                        }
                    }
                }
                Ev::CancelCalled { scope, .. } if *scope == sid => {
                    c.any = min_opt(c.any, Some(*no));
                    c.external = min_opt(c.external, Some(*no));
                }
                _ => {}
            }
        }
        own.insert(sid, c);
    }
    // Earliest event from which the context of `sid` may be cancelled for a reason other than a
    // failure of a task of `sid`: own external causes and anything at all in an enclosing scope.
    // (Deadlines are handled by simulated time, see below.)
    let external_from = |sid: u32| -> Option<u64> {
        let mut r = own[&sid].external;
        let mut cur = sid;
        while let Some(p) = parent_scope(cur) {
            r = min_opt(r, own[&p].any);
            cur = p;
        }
        r
    };
    // Scopes with a timeout of their own (or nested in one) can be cancelled by the clock at any
    // time after their start; the top-level scope by the caller's deadline.
    let timeout_chain = |sid: u32| -> bool {
        let mut cur = Some(sid);
        while let Some(c) = cur {
            if scope_timeout.get(&c).copied().unwrap_or(false) {
                return true;
            }
            cur = parent_scope(c);
        }
        false
    };

    for sid in scopes {
        let mut started: Vec<u32> = vec![];
        let mut ended: Vec<u32> = vec![];
        let mut mains_started = 0;
        let mut mains_resolved = 0;
        // By order of resolution.
        let mut first_failure: Option<(u64, Outcome)> = None;
        let mut failures: Vec<u32> = vec![];
        let mut any_panic = false;
        let mut cancelled_at: Option<(u64, &'static str)> = None;
        let mut returned: Option<u64> = None;
        for (no, e) in &events {
            // Tasks resolved at this event (async: at `TaskEnd`; blocking: at `BlockingDone`, at
            // the latest when their scope returns).
            for task in resolved_by_event.get(no).cloned().unwrap_or_default() {
                if task_scope[&task] != sid {
                    continue;
                }
                let (_, outcome, _) = ended_at[&task];
                if task_main[&task] {
                    mains_resolved += 1;
                    if mains_resolved == mains_started && cancelled_at.is_none() {
                        cancelled_at = Some((*no, "all main tasks completed"));
                    }
                }
                match outcome {
                    Outcome::Ok => {}
                    Outcome::Err(_) => {
                        first_failure.get_or_insert((*no, outcome));
                        failures.push(task);
                        cancelled_at.get_or_insert((*no, "a task failed"));
                    }
                    Outcome::Panic => {
                        any_panic = true;
                        first_failure.get_or_insert((*no, outcome));
                        cancelled_at.get_or_insert((*no, "a task panicked"));
                    }
                }
            }
            match e {
                Ev::TaskStart { scope, task, .. } if within(*scope, sid) => {
                    if returned.is_some() {
                        hist.violation("C17", "task_after_scope_returned", format!("scope {sid}: task {task} started at event {no}, after the scope returned at event {}", returned.unwrap()));
                    }
                }
                Ev::TaskSpawn { scope, task, main } if within(*scope, sid) => {
                    started.push(*task);
                    if *scope == sid && *main {
                        mains_started += 1;
                    }
                }
                Ev::TaskEnd { scope, task, .. } if within(*scope, sid) => {
                    if returned.is_some() {
                        hist.violation("C17", "task_outlives_scope", format!("scope {sid}: task {task} ended at event {no}, after the scope returned at event {}", returned.unwrap()));
                    }
                    ended.push(*task);
                }
                Ev::CancelCalled { scope, .. } if *scope == sid => {
                    cancelled_at.get_or_insert((*no, "cancel() was called"));
                }
                Ev::Active { scope, task, active } if *scope == sid => {
                    if let (true, Some((at, why))) = (*active, cancelled_at) {
                        hist.violation(
                            "C17",
                            "context_not_cancelled",
                            format!("scope {sid}: task {task} still sees an active context at event {no}, although {why} at event {at}"),
                        );
                    }
                }
                Ev::ScopeReturn { scope, outcome } if *scope == sid => {
                    returned = Some(*no);
                    let missing: Vec<u32> = started.iter().filter(|t| !ended.contains(t)).copied().collect();
                    if !missing.is_empty() {
                        hist.violation("C17", "returned_before_tasks_ended", format!("scope {sid} returned at event {no} while tasks {missing:?} were still running"));
                    }
                    if !mixed {
                        // Purely async program: failures are atomic, the first one wins.
                        let want = if any_panic {
                            Outcome::Panic
                        } else {
                            match first_failure {
                                Some((_, o)) => o,
                                None => Outcome::Ok,
                            }
                        };
                        if *outcome != want {
                            hist.violation(
                                "C17",
                                "wrong_scope_result",
                                format!("scope {sid} returned {outcome:?}, expected {want:?} (first failure: {first_failure:?}, panic: {any_panic})"),
                            );
                        }
                        continue;
                    }
                    // Program with blocking tasks: rules B' and B''.
                    if any_panic {
                        if *outcome != Outcome::Panic {
                            hist.violation("C17", "wrong_scope_result", format!("scope {sid} returned {outcome:?} although a task panicked"));
                        }
                        continue;
                    }
                    if failures.is_empty() {
                        if *outcome != Outcome::Ok {
                            hist.violation("C17", "wrong_scope_result", format!("scope {sid} returned {outcome:?} although no task of it failed"));
                        }
                        continue;
                    }
                    let Outcome::Err(code) = *outcome else {
                        hist.violation("C17", "wrong_scope_result", format!("scope {sid} returned {outcome:?} although tasks {failures:?} failed"));
                        continue;
                    };
                    let winner = failures.iter().copied().find(|t| matches!(ended_at.get(t), Some((_, Outcome::Err(c), _)) if *c == code));
                    let Some(x) = winner else {
                        hist.violation("C17", "wrong_scope_result", format!("scope {sid} returned error {code}, which is the error of none of its failed tasks {failures:?}"));
                        continue;
                    };
                    let (x_end, _, x_t) = ended_at[&x];
                    if let Some(y) = failures.iter().copied().find(|y| *y != x && resolved_at.get(y).is_some_and(|r| *r < x_end)) {
                        hist.violation(
                            "C17",
                            "wrong_scope_result",
                            format!(
                                "scope {sid} returned the error of task {x} (routine over at event {x_end}), but task {y} had failed and was completely resolved at event {} before that",
                                resolved_at[&y]
                            ),
                        );
                    }
                    if code >= CANCELED_BASE {
                        // X only reported that its context was cancelled.  Who cancelled it?
                        // A deadline (the caller's, or a timeout of this / an enclosing scope)?
                        let clock_cause = x_t >= caller_deadline_ns || timeout_chain(sid);
                        let ext = external_from(sid);
                        if !clock_cause && !ext.is_some_and(|e| e < x_end) {
                            hist.violation(
                                "C17",
                                "secondary_error_reported",
                                format!(
                                    "scope {sid} returned error {code}: task {x} merely observed (by event {x_end}, t={x_t} ns) that the scope's context was cancelled; \
                                     nothing but the failure of another task can have cancelled it before that (no cancel(), no successful completion of the last main task, \
                                     no deadline, enclosing scopes untouched), so that task's error is the first one (failed tasks: {failures:?})"
                                ),
                            );
                        }
                    }
                }
                _ => {}
            }
        }
    }
}
