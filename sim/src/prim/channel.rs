//! C16 (channel half): the real `bft::create_input_channel()` with concurrent senders and the
//! single consumer interleaved by the gate scheduler, checked against a sequential reference
//! model: a list with at most one entry per (sender, kind); a strictly higher view replaces the
//! pending entry and moves to the back; equal or lower views are dropped; badly signed messages
//! are dropped; `recv` pops the front.
use std::{rc::Rc, sync::{Arc, Mutex}};

use rand::Rng;
use serde_json::json;
use zksync_concurrency::{ctx, oneshot, verif::{self, sched_point, tokio_shim as gtokio}};
use zksync_consensus_bft as bft;
use zksync_consensus_network::io::ConsensusReq;
use zksync_consensus_roles::validator::{self, v2};

use super::{finish, new_hist, Director, DriveEnd, HistExt, SharedHist};
use crate::{cli::CaseResult, kit::{self, Sched}};

#[derive(Debug, Clone)]
pub enum Ev {
    Send { id: usize, key: usize, kind: u8, view: u64, valid: bool, h: u64 },
    Recv { h: u64 },
}

fn make_msg(keys: &[validator::SecretKey], genesis: validator::GenesisHash, key: usize, kind: u8, view: u64, salt: u64) -> validator::Signed<validator::ConsensusMsg> {
    let v = v2::View { genesis, epoch: validator::EpochNumber(0), number: validator::ViewNumber(view) };
    let vote = v2::ReplicaCommit {
        view: v,
        proposal: v2::BlockHeader { number: validator::BlockNumber(salt), payload: validator::Payload(salt.to_le_bytes().to_vec()).hash() },
    };
    // Justifications are not verified by the channel; an empty timeout certificate for view-1
    // gives a new-view / proposal for `view`.
    let just = v2::ProposalJustification::Timeout(v2::TimeoutQC::new(v2::View { number: validator::ViewNumber(view.saturating_sub(1)), ..v }));
    let m = match kind {
        0 => v2::ChonkyMsg::ReplicaCommit(vote),
        1 => v2::ChonkyMsg::ReplicaTimeout(v2::ReplicaTimeout { view: v, high_vote: if salt % 2 == 0 { Some(vote) } else { None }, high_qc: None }),
        2 => v2::ChonkyMsg::ReplicaNewView(v2::ReplicaNewView { justification: just }),
        _ => v2::ChonkyMsg::LeaderProposal(v2::LeaderProposal { proposal_payload: Some(validator::Payload(salt.to_le_bytes().to_vec())), justification: just }),
    };
    keys[key].sign_msg(validator::ConsensusMsg::V2(m))
}

pub async fn run(seed: u64, sched: Rc<Sched>, keep_log: bool) -> (CaseResult, Vec<String>) {
    let mut rng = kit::stream(seed, "channel");
    let clock = ctx::ManualClock::new();
    let root = Arc::new(ctx::test_root(&clock));
    let hist: SharedHist<Ev> = new_hist(keep_log);
    let nkeys = rng.gen_range(2..=4usize);
    let keys: Vec<validator::SecretKey> = (0..nkeys).map(|_| rng.gen()).collect();
    let genesis: validator::GenesisHash = rng.gen();
    let senders = rng.gen_range(2..=5usize);
    let total = rng.gen_range(8..=36usize);
    let view_span = rng.gen_range(1..=4u64); // small: many ties and reversals
    // Messages, partitioned among sender tasks.
    let mut msgs: Vec<Vec<(usize, validator::Signed<validator::ConsensusMsg>, (usize, u8, u64, bool), u32)>> = vec![vec![]; senders];
    for id in 0..total {
        let key = rng.gen_range(0..nkeys);
        let kind = rng.gen_range(0..4u8);
        let view = 1 + rng.gen_range(0..view_span);
        let mut m = make_msg(&keys, genesis, key, kind, view, id as u64);
        let valid = rng.gen_range(0..100) >= 12;
        if !valid {
            hist.fault("bad_signature");
            // Signed by another key / for another message.
            m.sig = make_msg(&keys, genesis, (key + 1) % nkeys, kind, view, id as u64 + 1000).sig;
        }
        let s = rng.gen_range(0..senders);
        msgs[s].push((id, m, (key, kind, view, valid), rng.gen_range(0..3)));
    }
    // Messages are identified by their content (two new-views of one sender for one view are
    // the same message).
    let content = |m: &validator::Signed<validator::ConsensusMsg>| kit::hash_bytes(&zksync_protobuf::encode(m));
    let known: Arc<Mutex<Vec<u64>>> = Arc::new(Mutex::new(msgs.iter().flatten().map(|x| content(&x.1)).collect()));
    let (send, mut recv) = bft::create_input_channel();
    let send = Arc::new(send);
    let mut handles = vec![];
    // "Parallel burst" mode: the senders are (simulated) OS threads, so that `send` itself is
    // interleaved at every access to the shared queue (hook: watch shim), as it is between the
    // RPC handler tasks of a multi-threaded runtime; the consumer starts when they are done.
    let burst = rng.gen_range(0..100) < 35;
    let senders_done = Arc::new(std::sync::atomic::AtomicBool::new(!burst));
    for list in msgs {
        let (send, hist) = (send.clone(), hist.clone());
        if burst {
            handles.push(gtokio::task::spawn_blocking(move || {
                for (id, m, (key, kind, view, valid), yields) in list {
                    for _ in 0..yields {
                        verif::preempt();
                    }
                    let h = kit::hash_bytes(&zksync_protobuf::encode(&m));
                    hist.rec(Ev::Send { id, key, kind, view, valid, h });
                    let (ack, _r) = oneshot::channel();
                    send.send(ConsensusReq { msg: m, ack });
                    verif::preempt();
                }
            }));
            continue;
        }
        handles.push(gtokio::spawn(async move {
            for (id, m, (key, kind, view, valid), yields) in list {
                for _ in 0..yields {
                    sched_point().await;
                }
                // Logged in the same step as the (synchronous) send: the log order is the
                // linearisation order.
                let h = kit::hash_bytes(&zksync_protobuf::encode(&m));
                hist.rec(Ev::Send { id, key, kind, view, valid, h });
                let (ack, _r) = oneshot::channel();
                send.send(ConsensusReq { msg: m, ack });
                sched_point().await;
            }
        }));
    }
    let consumer_rounds = rng.gen_range(1..=3u32);
    let (hist2, known2, root2) = (hist.clone(), known.clone(), root.clone());
    let stop = Arc::new(std::sync::atomic::AtomicBool::new(false));
    let stop2 = stop.clone();
    let senders_done2 = senders_done.clone();
    let consumer = gtokio::spawn(async move {
        while !senders_done2.load(std::sync::atomic::Ordering::SeqCst) {
            let _ = root2.sleep(zksync_concurrency::time::Duration::milliseconds(5)).await;
        }
        loop {
            // The consumer is sometimes slow, so that messages pile up and get pruned.
            for _ in 0..consumer_rounds {
                sched_point().await;
            }
            let ctx = &*root2;
            let r = recv.recv(&ctx.with_timeout(zksync_concurrency::time::Duration::seconds(1))).await;
            match r {
                Ok(req) => {
                    let h = kit::hash_bytes(&zksync_protobuf::encode(&req.msg));
                    if known2.lock().unwrap().contains(&h) {
                        hist2.rec(Ev::Recv { h });
                    } else {
                        hist2.violation("C16", "received_unknown_message", "the channel delivered a message nobody sent".into());
                    }
                }
                Err(ctx::Canceled) => {
                    if stop2.load(std::sync::atomic::Ordering::SeqCst) {
                        return;
                    }
                }
            }
        }
    });
    let mut d = Director::new(seed, sched.clone(), clock.clone());
    d.tick_pct = 3;
    d.tick_sizes = vec![1_000_000];
    let end = d.drive(|| handles.iter().all(|h| h.is_finished()), |_| {}).await;
    senders_done.store(true, std::sync::atomic::Ordering::SeqCst);
    // Drain: let the consumer empty the queue, then stop it via its receive timeout.
    let mut harness_error = None;
    if !matches!(end, DriveEnd::Done) {
        harness_error = Some("sender tasks did not finish".to_string());
    }
    stop.store(true, std::sync::atomic::Ordering::SeqCst);
    d.tick_sizes = vec![300_000_000];
    let end = d.drive(|| consumer.is_finished(), |_| {}).await;
    if !matches!(end, DriveEnd::Done) {
        harness_error.get_or_insert("consumer did not finish".to_string());
    }
    d.drain().await;
    let events = hist.lock().unwrap().events.clone();
    if burst {
        // Every send completed before anything was received, in an unknown order (the sends were
        // interleaved inside): whatever the order, the queue ends with exactly one message per
        // (sender, kind) which had a valid message, and it is one of highest view.
        hist.probe("parallel_burst");
        let mut best: std::collections::BTreeMap<(usize, u8), u64> = Default::default();
        let mut by_hash: std::collections::BTreeMap<u64, (usize, u8, u64, bool)> = Default::default();
        for (_, e) in &events {
            if let Ev::Send { key, kind, view, valid, h, .. } = e {
                by_hash.entry(*h).or_insert((*key, *kind, *view, *valid));
                if *valid {
                    let b = best.entry((*key, *kind)).or_insert(0);
                    *b = (*b).max(*view);
                }
            }
        }
        let mut got: std::collections::BTreeMap<(usize, u8), Vec<u64>> = Default::default();
        for (no, e) in &events {
            if let Ev::Recv { h } = e {
                let (key, kind, view, valid) = by_hash[h];
                if !valid {
                    hist.violation("C16", "badly_signed_message_delivered", format!("event {no}: message {h:x} of sender {key} kind {kind} has a bad signature"));
                }
                got.entry((key, kind)).or_default().push(view);
            }
        }
        for (k, views) in &got {
            if views.len() > 1 {
                hist.violation(
                    "C16",
                    "several_pending_messages_for_one_sender_and_kind",
                    format!("sender {} kind {}: {} messages (views {views:?}) were pending at once after a burst of concurrent sends; at most one may be", k.0, k.1, views.len()),
                );
            } else if best.get(k).is_some_and(|b| *b != views[0]) {
                hist.violation("C16", "stale_message_survived", format!("sender {} kind {}: the pending message has view {}, a valid one with view {} was sent", k.0, k.1, views[0], best[k]));
            }
        }
        for k in best.keys() {
            if !got.contains_key(k) && harness_error.is_none() {
                hist.violation("C16", "message_lost", format!("sender {} kind {}: valid messages were sent, none was delivered", k.0, k.1));
            }
        }
        let states = vec![kit::mix(7, kit::mix(best.len() as u64, got.values().map(|v| v.len() as u64).sum()))];
        return finish(
            seed,
            "channel",
            &sched,
            &hist,
            d.sim_ns,
            total > best.len(),
            states,
            json!({"keys": nkeys, "senders": senders, "messages": total, "view_span": view_span, "mode": "parallel burst", "pairs": best.len()}),
            harness_error,
        );
    }
    // Reference model over the linearised history.
    let mut model: Vec<(u64, usize, u8, u64)> = vec![]; // (content, key, kind, view)
    let mut max_len = 0;
    let mut replaced = 0;
    let mut dropped_stale = 0;
    for (no, e) in &events {
        match e {
            Ev::Send { key, kind, view, valid, h, .. } => {
                if !*valid {
                    continue;
                }
                if let Some(p) = model.iter().position(|x| x.1 == *key && x.2 == *kind) {
                    if model[p].3 < *view {
                        model.remove(p);
                        model.push((*h, *key, *kind, *view));
                        replaced += 1;
                    } else {
                        dropped_stale += 1;
                    }
                } else {
                    model.push((*h, *key, *kind, *view));
                }
                max_len = max_len.max(model.len());
            }
            Ev::Recv { h } => {
                if model.is_empty() {
                    hist.violation("C16", "recv_from_empty_model", format!("event {no}: received message {h:x} although the reference queue is empty (the message should have been dropped)"));
                    break;
                }
                let want = model.remove(0);
                if want.0 != *h {
                    hist.violation(
                        "C16",
                        "recv_differs_from_model",
                        format!("event {no}: received message {h:x}, reference model delivers message {:x} (sender {}, kind {}, view {})", want.0, want.1, want.2, want.3),
                    );
                    break;
                }
            }
        }
    }
    if hist.lock().unwrap().violations.is_empty() && !model.is_empty() && harness_error.is_none() {
        hist.violation("C16", "message_lost", format!("{} messages retained by the reference model were never delivered: {:?}", model.len(), model));
    }
    if replaced > 0 {
        hist.probe("pending_replaced_by_fresher");
    }
    if dropped_stale > 0 {
        hist.probe("stale_dropped");
    }
    let bound = nkeys * 4;
    if max_len > bound {
        hist.violation("C16", "queue_bound", format!("{max_len} pending entries for {nkeys} senders x 4 kinds"));
    }
    let states = vec![kit::mix(max_len as u64, kit::mix(replaced.min(9), dropped_stale.min(9)))];
    finish(
        seed,
        "channel",
        &sched,
        &hist,
        d.sim_ns,
        replaced + dropped_stale > 0,
        states,
        json!({"keys": nkeys, "senders": senders, "messages": total, "view_span": view_span, "max_pending": max_len, "replaced": replaced, "stale_dropped": dropped_stale}),
        harness_error,
    )
}
