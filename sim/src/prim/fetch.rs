//! C19: the real gossip block-fetch queue (`gossip::fetch::Queue`, via hook H4) with requester
//! tasks (some cancelled) and peer-worker tasks (accept -> succeed / fail / disconnect), all
//! interleaved by the gate scheduler.
//!
//! Oracles over the history: a block is held by at most one peer at a time; a peer only ever
//! receives a block inside its announced range; the block handed over was the lowest outstanding
//! request at some event between the accept's invocation and its return; after a failure the same
//! request is handed out again; a cancelled request disappears; once every peer announces
//! everything and always succeeds, all outstanding requests complete (lost-wake-up detector).
use std::{collections::{BTreeMap, BTreeSet}, rc::Rc, sync::{atomic::{AtomicBool, Ordering}, Arc}};

use rand::Rng;
use serde_json::json;
use zksync_concurrency::{ctx, sync, time, verif::{sched_point, tokio_shim as gtokio}};
use zksync_consensus_engine::{BlockStoreState, Last};
use zksync_consensus_network::verif::gossip::FetchQueue;
use zksync_consensus_roles::validator;

use super::{finish, new_hist, Director, DriveEnd, HistExt, SharedHist};
use crate::{cli::CaseResult, kit::{self, Sched}};

#[derive(Debug, Clone)]
pub enum Ev {
    Request { req: usize, number: u64, cancel_after_ms: Option<i64> },
    RequestDone { req: usize, number: u64 },
    RequestCanceled { req: usize, number: u64 },
    AcceptCall { peer: usize },
    Accepted { peer: usize, number: u64, announced: (u64, u64) },
    Outcome { peer: usize, number: u64, ok: bool },
    Announce { peer: usize, first: u64, last: u64 },
}

fn state(first: u64, last: Option<u64>) -> BlockStoreState {
    BlockStoreState { first: validator::BlockNumber(first), last: last.map(|l| Last::PreGenesis(validator::BlockNumber(l))) }
}

pub async fn run(seed: u64, sched: Rc<Sched>, keep_log: bool) -> (CaseResult, Vec<String>) {
    let mut rng = kit::stream(seed, "fetch");
    let hist: SharedHist<Ev> = new_hist(keep_log);
    let clock = ctx::ManualClock::new();
    let root = Arc::new(ctx::test_root(&clock));
    let queue = Arc::new(FetchQueue::default());
    let npeers = rng.gen_range(1..=5usize);
    let nreq = rng.gen_range(1..=10usize);
    let max_block = rng.gen_range(3..20u64);
    // Distinct block numbers (the fetcher requests every number once).
    let mut numbers: Vec<u64> = (0..=max_block).collect();
    use rand::seq::SliceRandom;
    numbers.shuffle(&mut rng);
    numbers.truncate(nreq.min(numbers.len()));
    let fair = Arc::new(AtomicBool::new(false));
    let stop = Arc::new(AtomicBool::new(false));
    // Peers: availability watch + a script of failure decisions.
    let mut avail_tx = vec![];
    let mut peers = vec![];
    // Per peer: is its worker inside `accept_block` right now?
    let idle: Vec<Arc<AtomicBool>> = (0..npeers).map(|_| Arc::new(AtomicBool::new(false))).collect();
    for peer in 0..npeers {
        let my_idle = idle[peer].clone();
        let first = rng.gen_range(0..3u64);
        let (tx, rx) = sync::watch::channel(state(first, None));
        let tx = Arc::new(tx);
        avail_tx.push((tx.clone(), first));
        let (queue, hist, root, fair, stop) = (queue.clone(), hist.clone(), root.clone(), fair.clone(), stop.clone());
        let mut prng = kit::stream(seed, &format!("peer{peer}"));
        let fail_pct = prng.gen_range(0..60u32);
        peers.push(gtokio::spawn(async move {
            let mut rx = rx;
            while !stop.load(Ordering::SeqCst) {
                hist.rec(Ev::AcceptCall { peer });
                // Connections come and go: an accept may be abandoned (peer disconnects).
                // (In the fair suffix connections are stable: a lost wake-up must not be masked by
                // the peer re-entering `accept_block`.)
                let actx = if fair.load(Ordering::SeqCst) {
                    root.with_timeout(time::Duration::seconds(100_000))
                } else {
                    root.with_timeout(time::Duration::milliseconds(prng.gen_range(20..400)))
                };
                my_idle.store(true, Ordering::SeqCst);
                let r = queue.accept_block(&actx, &mut rx).await;
                my_idle.store(false, Ordering::SeqCst);
                let Ok((number, done)) = r else {
                    continue;
                };
                let a = rx.borrow().clone();
                hist.rec(Ev::Accepted { peer, number: number.0, announced: (a.first.0, a.next().0) });
                for _ in 0..prng.gen_range(0..4) {
                    sched_point().await;
                }
                let ok = fair.load(Ordering::SeqCst) || prng.gen_range(0..100) >= fail_pct;
                // Logged before the completion is signalled: the requester may run next.
                hist.rec(Ev::Outcome { peer, number: number.0, ok });
                if ok {
                    let _ = done.send(());
                } else {
                    hist.fault("fetch_failed");
                    drop(done);
                }
            }
        }));
    }
    // Requesters.
    let mut reqs = vec![];
    for (req, number) in numbers.iter().copied().enumerate() {
        let cancel = if rng.gen_range(0..100) < 25 { Some(rng.gen_range(1..300i64)) } else { None };
        let yields = rng.gen_range(0..6);
        // Some requests are only issued during the fair suffix, when every peer sits idle in
        // `accept_block`: that is where a lost wake-up shows.
        let late = rng.gen_range(0..100) < 30;
        let late_ms = rng.gen_range(1..80i64);
        let (queue, hist, root, fair) = (queue.clone(), hist.clone(), root.clone(), fair.clone());
        reqs.push(gtokio::spawn(async move {
            for _ in 0..yields {
                sched_point().await;
            }
            if late {
                while !fair.load(Ordering::SeqCst) {
                    let _ = root.sleep(time::Duration::milliseconds(7)).await;
                }
                let _ = root.sleep(time::Duration::milliseconds(late_ms)).await;
            }
            hist.rec(Ev::Request { req, number, cancel_after_ms: cancel });
            let cctx;
            let ctx: &ctx::Ctx = match cancel {
                Some(ms) => {
                    cctx = root.with_timeout(time::Duration::milliseconds(ms));
                    &cctx
                }
                None => &root,
            };
            match queue.request_block(ctx, validator::BlockNumber(number)).await {
                Ok(()) => {
                    hist.rec(Ev::RequestDone { req, number });
                }
                Err(ctx::Canceled) => {
                    hist.fault("request_cancelled");
                    hist.rec(Ev::RequestCanceled { req, number });
                }
            }
        }));
    }
    // Director: steps, clock ticks, availability announcements.
    let mut d = Director::new(seed, sched.clone(), clock.clone());
    d.tick_pct = rng.gen_range(3..20);
    d.tick_sizes = vec![1_000_000, 10_000_000, 50_000_000];
    d.max_steps = 300_000;
    let mut arng = kit::stream(seed, "fetch-actions");
    let mut lasts: Vec<Option<u64>> = vec![None; npeers];
    let mut phase_rounds = 0u64;
    let prefix_rounds = rng.gen_range(20..400u64);
    let mut end = DriveEnd::Done;
    loop {
        if reqs.iter().all(|h| h.is_finished()) {
            break;
        }
        let mut budget = arng.gen_range(1..10);
        let e = d.drive(|| { budget -= 1; budget < 0 }, |_| {}).await;
        if matches!(e, DriveEnd::StepLimit) {
            end = e;
            break;
        }
        if matches!(e, DriveEnd::Stuck) && phase_rounds > prefix_rounds + 50 {
            // Everything is blocked although every peer could serve every request.
            end = e;
            break;
        }
        // Quiescence oracle (lost wake-up): when nothing at all is runnable, a worker sitting in
        // `accept_block` whose peer has announced the lowest outstanding request must have been
        // handed that request - every change of the minimum wakes the workers.
        sched.settle().await;
        if sched.ready_len() == 0 {
            hist.probe("quiescent_point_checked");
            if let Some(lowest) = queue.current_blocks().first().copied() {
                for peer in 0..npeers {
                    let first = if fair.load(Ordering::SeqCst) { 0 } else { avail_tx[peer].1 };
                    let Some(last) = lasts[peer] else { continue };
                    if idle[peer].load(Ordering::SeqCst) && first <= lowest && lowest <= last {
                        hist.violation(
                            "C19",
                            "lost_wakeup",
                            format!(
                                "nothing is runnable, block {lowest} is the lowest outstanding request (queue {:?}), peer {peer} has announced [{first}, {last}] and its worker sits idle in accept_block",
                                queue.current_blocks()
                            ),
                        );
                        break;
                    }
                }
            }
        }
        if !hist.lock().unwrap().violations.is_empty() {
            break;
        }
        phase_rounds += 1;
        if phase_rounds == prefix_rounds {
            // Fair suffix: every peer has everything and always succeeds.
            fair.store(true, Ordering::SeqCst);
            for (peer, (tx, first)) in avail_tx.iter().enumerate() {
                tx.send_replace(state(0.min(*first), Some(max_block + 5)));
                lasts[peer] = Some(max_block + 5);
                hist.rec(Ev::Announce { peer, first: 0, last: max_block + 5 });
            }
        } else if phase_rounds < prefix_rounds && arng.gen_range(0..100) < 25 {
            let peer = arng.gen_range(0..npeers);
            let (tx, first) = &avail_tx[peer];
            // Availability only grows (so that "inside the announced range" is stable).
            let new_last = lasts[peer].map(|l| l + arng.gen_range(0..4)).unwrap_or(*first + arng.gen_range(0..4));
            lasts[peer] = Some(new_last);
            tx.send_replace(state(*first, Some(new_last)));
            hist.rec(Ev::Announce { peer, first: *first, last: new_last });
        }
        if phase_rounds > prefix_rounds + 4000 {
            end = DriveEnd::Stuck;
            break;
        }
    }
    if !matches!(end, DriveEnd::Done) {
        let pending = queue.current_blocks();
        hist.violation(
            "C19",
            "request_never_served",
            format!("all peers announce every block and always succeed, yet requests stay outstanding (queue: {pending:?})"),
        );
    }
    stop.store(true, Ordering::SeqCst);
    d.tick_sizes = vec![500_000_000, 100_000_000_000_000];
    let _ = d.drive(|| peers.iter().all(|h| h.is_finished()) && reqs.iter().all(|h| h.is_finished()), |_| {}).await;
    d.drain().await;
    check(&hist);
    let (accepts, fails) = {
        let h = hist.lock().unwrap();
        (
            h.events.iter().filter(|(_, e)| matches!(e, Ev::Accepted { .. })).count(),
            h.events.iter().filter(|(_, e)| matches!(e, Ev::Outcome { ok: false, .. })).count(),
        )
    };
    if fails > 0 {
        hist.probe("request_handed_out_again_after_failure");
    }
    let states = vec![kit::mix(npeers as u64, kit::mix(accepts.min(30) as u64, fails.min(10) as u64))];
    let he = if sched.live() != 0 && hist.lock().unwrap().violations.is_empty() { Some("tasks alive".to_string()) } else { None };
    finish(seed, "fetch", &sched, &hist, d.sim_ns, accepts >= 2, states,
        json!({"peers": npeers, "requests": numbers.len(), "max_block": max_block, "accepts": accepts, "failed_fetches": fails}), he)
}

fn check(hist: &SharedHist<Ev>) {
    let events = hist.lock().unwrap().events.clone();
    // Model: outstanding = requested, not done/cancelled, not currently held by a peer.
    let mut outstanding: BTreeSet<u64> = BTreeSet::new();
    let mut held: BTreeMap<u64, usize> = BTreeMap::new();
    // Per peer: minima of `outstanding` seen since its AcceptCall.
    let mut window: BTreeMap<usize, BTreeSet<u64>> = BTreeMap::new();
    let mut live_requests: BTreeSet<u64> = BTreeSet::new();
    // Blocks fetched successfully since their request was issued.
    let mut fetched: BTreeSet<u64> = BTreeSet::new();
    // After a failed fetch the requester re-inserts its request only when it runs next: until
    // the block is handed out again it is *possibly* outstanding ("limbo").
    let mut limbo: BTreeSet<u64> = BTreeSet::new();
    // Candidates for "the lowest outstanding request" at an event: the smallest definitely
    // outstanding number and every possibly outstanding number below it.
    let note_min = |window: &mut BTreeMap<usize, BTreeSet<u64>>, outstanding: &BTreeSet<u64>, limbo: &BTreeSet<u64>| {
        let m = outstanding.iter().next().copied();
        let mut cands: Vec<u64> = limbo.iter().copied().filter(|x| m.is_none_or(|m| *x < m)).collect();
        cands.extend(m);
        for w in window.values_mut() {
            w.extend(cands.iter().copied());
        }
    };
    for (no, e) in &events {
        match e {
            Ev::Request { number, .. } => {
                fetched.remove(number);
                live_requests.insert(*number);
                outstanding.insert(*number);
            }
            Ev::RequestDone { number, .. } if !fetched.contains(number) => {
                hist.violation("C19", "request_completed_without_fetch", format!("event {no}: the request for block {number} returned Ok although no peer fetched the block successfully"));
                live_requests.remove(number);
                outstanding.remove(number);
                limbo.remove(number);
            }
            Ev::RequestDone { number, .. } | Ev::RequestCanceled { number, .. } => {
                live_requests.remove(number);
                outstanding.remove(number);
                limbo.remove(number);
            }
            Ev::AcceptCall { peer } => {
                window.insert(*peer, BTreeSet::new());
            }
            Ev::Accepted { peer, number, announced } => {
                if let Some(other) = held.get(number) {
                    hist.violation("C19", "block_held_by_two_peers", format!("event {no}: block {number} handed to peer {peer} while peer {other} still holds it"));
                }
                if !(announced.0 <= *number && *number < announced.1) {
                    hist.violation("C19", "block_outside_announced_range", format!("event {no}: peer {peer} got block {number}, it announced [{}, {})", announced.0, announced.1));
                }
                if !live_requests.contains(number) {
                    hist.violation("C19", "unrequested_block_handed_out", format!("event {no}: peer {peer} got block {number} which nobody is waiting for (cancelled or never requested)"));
                } else if !window.get(peer).is_some_and(|w| w.contains(number)) {
                    hist.violation("C19", "not_the_lowest_request", format!("event {no}: peer {peer} got block {number}, which was never the lowest outstanding request during the accept (minima seen: {:?})", window.get(peer)));
                }
                held.insert(*number, *peer);
                outstanding.remove(number);
                limbo.remove(number);
                window.remove(peer);
            }
            Ev::Outcome { number, ok, .. } => {
                held.remove(number);
                if *ok {
                    fetched.insert(*number);
                }
                if !*ok && live_requests.contains(number) {
                    limbo.insert(*number);
                }
            }
            Ev::Announce { .. } => {}
        }
        note_min(&mut window, &outstanding, &limbo);
    }
}
