//! C15 (limiter half): real `limiter::Limiter` under concurrent acquire / hold / drop / cancel
//! with director-controlled clock advances.
//!
//! Oracles (over the grant history, manual-clock timestamps, event-number order):
//!  1. token-bucket bound: for every pair of grants, permits granted in between
//!     <= burst + floor(T / refresh) + 1;
//!  2. waiters are served in arrival order (cancelled and impossible requests excepted);
//!  3. a cancelled wait consumes nothing / nothing leaks: after everything is released and
//!     burst * refresh has elapsed, `acquire(burst)` is granted without any further wait;
//!  4. a request for more than `burst` permits is never granted.
use std::{rc::Rc, sync::Arc};

use rand::Rng;
use serde_json::json;
use zksync_concurrency::{ctx, limiter, time, verif::{sched_point, tokio_shim as gtokio}};

use super::{finish, new_hist, Director, DriveEnd, HistExt, SharedHist};
use crate::{cli::CaseResult, kit::{self, Sched}};

#[derive(Debug, Clone)]
pub enum Ev {
    Arrive { task: usize, req: usize, n: usize, cancel_after_ns: Option<i64> },
    Grant { task: usize, req: usize, n: usize, at_ns: i128 },
    Canceled { task: usize, req: usize },
    Release { task: usize, req: usize, n: usize, at_ns: i128 },
}

pub async fn run(seed: u64, sched: Rc<Sched>, keep_log: bool) -> (CaseResult, Vec<String>) {
    let mut rng = kit::stream(seed, "limiter");
    let clock = ctx::ManualClock::new();
    let root = ctx::test_root(&clock);
    let hist: SharedHist<Ev> = new_hist(keep_log);
    // Swarm parameters.
    let burst: usize = *[1usize, 1, 2, 3, 5, 8].get(rng.gen_range(0..6)).unwrap();
    let inf = rng.gen_range(0..100) < 5;
    let refresh_ns: i64 = if inf { 0 } else { *[1i64, 7, 1_000, 1_000_000, 1_000_000_000].get(rng.gen_range(0..5)).unwrap() };
    let rate = if inf {
        limiter::Rate::INF
    } else {
        limiter::Rate { burst, refresh: time::Duration::nanoseconds(refresh_ns) }
    };
    let tasks = rng.gen_range(1..=6usize);
    let reqs_per_task = rng.gen_range(1..=5usize);
    hist.note(format!("limiter burst={burst} refresh={refresh_ns}ns inf={inf} tasks={tasks} reqs={reqs_per_task}"));
    let t0 = clock.now();
    let lim = Arc::new(limiter::Limiter::new(&root, rate));
    let root = Arc::new(root);
    let mut handles = vec![];
    let unit = refresh_ns.max(1);
    for task in 0..tasks {
        // Script of the task, drawn up front so that it does not depend on the schedule.
        let script: Vec<(usize, Option<i64>, i64, u32)> = (0..reqs_per_task)
            .map(|_| {
                let n = match rng.gen_range(0..100) {
                    0..=4 => 0,
                    5..=9 => burst + 1,
                    _ => rng.gen_range(1..=burst),
                };
                let cancel = if rng.gen_range(0..100) < 25 { Some(unit * rng.gen_range(0..4) + rng.gen_range(0..2)) } else { None };
                let hold = match rng.gen_range(0..4) { 0 => 0, 1 => unit / 2, 2 => unit, _ => unit * rng.gen_range(1..5) };
                let yields = rng.gen_range(0..3);
                (n, cancel, hold, yields)
            })
            .collect();
        let (lim, root, hist, clock) = (lim.clone(), root.clone(), hist.clone(), clock.clone());
        handles.push(gtokio::spawn(async move {
            let ctx = &*root;
            for (req, (n, cancel, hold, yields)) in script.into_iter().enumerate() {
                for _ in 0..yields {
                    sched_point().await;
                }
                // Requests for more than `burst` never complete: they always carry a timeout.
                let cancel = if n > burst { Some(cancel.unwrap_or(unit)) } else { cancel };
                hist.rec(Ev::Arrive { task, req, n, cancel_after_ns: cancel });
                let cctx;
                let actx = match cancel {
                    Some(d) => {
                        cctx = ctx.with_timeout(time::Duration::nanoseconds(d));
                        &cctx
                    }
                    None => ctx,
                };
                let res = lim.acquire(actx, n).await;
                match res {
                    Ok(permit) => {
                        let at = (clock.now() - t0).whole_nanoseconds();
                        hist.rec(Ev::Grant { task, req, n, at_ns: at });
                        if hold > 0 {
                            let _ = ctx.sleep(time::Duration::nanoseconds(hold)).await;
                        } else {
                            sched_point().await;
                        }
                        let at = (clock.now() - t0).whole_nanoseconds();
                        drop(permit);
                        hist.rec(Ev::Release { task, req, n, at_ns: at });
                    }
                    Err(ctx::Canceled) => {
                        hist.fault("cancel_mid_wait");
                        hist.rec(Ev::Canceled { task, req });
                    }
                }
            }
        }));
    }
    let mut d = Director::new(seed, sched.clone(), clock.clone());
    d.tick_pct = rng.gen_range(5..40);
    d.tick_sizes = vec![1, unit / 3 + 1, unit, unit * 2];
    let end = d.drive(|| handles.iter().all(|h| h.is_finished()), |_| {}).await;
    let mut harness_error = None;
    match end {
        DriveEnd::Done => {}
        DriveEnd::Stuck => hist.violation(
            "C15",
            "limiter_waiters_never_served",
            "all client tasks are blocked although nothing holds a permit and the clock keeps advancing".into(),
        ),
        DriveEnd::StepLimit => harness_error = Some("step limit".into()),
    }
    // Oracle 3: leak check.
    if matches!(end, DriveEnd::Done) && !inf {
        d.advance(unit.saturating_mul(burst as i64 + 1));
        let (lim2, root2, hist2, clock2) = (lim.clone(), root.clone(), hist.clone(), clock.clone());
        let h = gtokio::spawn(async move {
            // Measured inside the task: an acquire that does not have to wait completes within
            // one poll, so the director cannot move the clock in between.
            let before = (clock2.now() - t0).whole_nanoseconds();
            let p = lim2.acquire(&root2, burst).await;
            let at = (clock2.now() - t0).whole_nanoseconds();
            if p.is_ok() && at != before {
                hist2.violation(
                    "C15",
                    "limiter_permits_leaked",
                    format!("after all permits were released and burst*refresh elapsed, acquire(burst={burst}) had to wait {} ns", at - before),
                );
            }
            drop(p);
        });
        let end2 = d.drive(|| h.is_finished(), |_| {}).await;
        if !matches!(end2, DriveEnd::Done) {
            hist.violation(
                "C15",
                "limiter_permits_leaked",
                format!("after all permits were released and burst*refresh elapsed, acquire(burst={burst}) is never granted"),
            );
            // The stuck task holds references; wind it down by leaking (runtime is forgotten).
            harness_error.get_or_insert("leak-check task stuck".into());
        }
    }
    d.drain().await;
    check_history(&hist, burst, refresh_ns, inf);
    let (grants, cancels) = {
        let h = hist.lock().unwrap();
        (
            h.events.iter().filter(|(_, e)| matches!(e, Ev::Grant { .. })).count(),
            h.events.iter().filter(|(_, e)| matches!(e, Ev::Canceled { .. })).count(),
        )
    };
    let states = vec![kit::mix(burst as u64, kit::mix(refresh_ns as u64, (grants.min(7) * 8 + cancels.min(7)) as u64))];
    // If the leak-check task is stuck the runtime must not be dropped with it alive; `run_sim`
    // leaks the runtime when tasks are alive and reports it, which we downgrade here because the
    // violation is already recorded.
    let he = if hist.lock().unwrap().violations.is_empty() { harness_error } else { None };
    finish(
        seed,
        "limiter",
        &sched,
        &hist,
        d.sim_ns,
        grants >= 2,
        states,
        json!({"burst": burst, "refresh_ns": refresh_ns, "inf": inf, "tasks": tasks, "requests_per_task": reqs_per_task, "grants": grants, "cancelled": cancels}),
        he,
    )
}

fn check_history(hist: &SharedHist<Ev>, burst: usize, refresh_ns: i64, inf: bool) {
    let events = hist.lock().unwrap().events.clone();
    let grants: Vec<(u64, usize, usize, usize, i128)> = events
        .iter()
        .filter_map(|(no, e)| match e {
            Ev::Grant { task, req, n, at_ns } => Some((*no, *task, *req, *n, *at_ns)),
            _ => None,
        })
        .collect();
    // Oracle 4.
    for (_, task, req, n, _) in &grants {
        if !inf && *n > burst {
            hist.violation("C15", "granted_more_than_burst", format!("task {task} request {req}: {n} permits granted, burst is {burst}"));
        }
    }
    if inf {
        return;
    }
    // Oracle 1: token-bucket bound over every window delimited by two grants.
    'outer: for i in 0..grants.len() {
        let mut sum: i128 = 0;
        for j in i..grants.len() {
            sum += grants[j].3 as i128;
            let t = grants[j].4 - grants[i].4;
            let allowed = burst as i128 + t / refresh_ns as i128 + 1;
            if sum > allowed {
                hist.violation(
                    "C15",
                    "rate_exceeded",
                    format!(
                        "{sum} permits granted within {t} ns (events {}..{}), bound is burst {burst} + T/refresh {} + 1 = {allowed}",
                        grants[i].0, grants[j].0, t / refresh_ns as i128
                    ),
                );
                break 'outer;
            }
        }
    }
    // Oracle 2: arrival order. Requests which were cancelled or impossible are excepted.
    let mut arrivals: Vec<(u64, usize, usize)> = vec![];
    for (no, e) in &events {
        if let Ev::Arrive { task, req, n, .. } = e {
            if *n <= burst {
                arrivals.push((*no, *task, *req));
            }
        }
    }
    let cancelled: Vec<(usize, usize)> = events
        .iter()
        .filter_map(|(_, e)| match e {
            Ev::Canceled { task, req } => Some((*task, *req)),
            _ => None,
        })
        .collect();
    let expected: Vec<(usize, usize)> = arrivals
        .iter()
        .map(|(_, t, r)| (*t, *r))
        .filter(|x| !cancelled.contains(x))
        .collect();
    let got: Vec<(usize, usize)> = grants.iter().map(|g| (g.1, g.2)).collect();
    if expected.len() == got.len() && expected != got {
        let k = expected.iter().zip(&got).position(|(a, b)| a != b).unwrap();
        hist.violation(
            "C15",
            "not_served_in_arrival_order",
            format!("grant #{k} went to task {} request {}, but task {} request {} arrived first", got[k].0, got[k].1, expected[k].0, expected[k].1),
        );
    }
}
