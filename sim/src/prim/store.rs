//! C08: the real `EngineManager` / `BlockStore` (+ its runner tasks) over a `SimEngine`, driven by
//! concurrent submitters and readers, with lagging / jumping / pruning persistence and restarts.
//!
//! Oracles: (1) every block handed to the execution layer is the genuine chain block for its
//! number and directly follows the previous one / the durable head; (2) never two different
//! blocks for one number; (3) `persisted.next <= queued.next`, `queued.first >= persisted.first`
//! at every step; (4) a number inside `queued()` is readable through `get_block` with the genuine
//! content until pruned; (5) invalid submissions are rejected and change nothing.
use std::{collections::BTreeMap, rc::Rc, sync::{Arc, Mutex}};

use rand::{seq::SliceRandom, Rng};
use serde_json::json;
use zksync_concurrency::{ctx, oneshot, scope, time, verif::{sched_point, tokio_shim as gtokio}};
use zksync_consensus_engine::EngineManager;
use zksync_consensus_roles::validator::{self, v2};

use super::{finish, new_hist, Director, DriveEnd, HistExt, SharedHist};
use crate::{
    bft::{engine::{NodeStore, SimEngine}, hub::{Committee, Hub}},
    cli::CaseResult,
    kit::{self, Sched},
};

#[derive(Debug, Clone)]
pub enum Ev {
    Submit { task: usize, number: u64, variant: &'static str },
    SubmitResult { task: usize, number: u64, variant: &'static str, ok: bool, err: String },
    Read { task: usize, number: u64, result: String },
    Note(String),
}

pub struct Chain {
    pub committee: Committee,
    pub blocks: BTreeMap<u64, validator::Block>,
    pub pregenesis: BTreeMap<u64, validator::PreGenesisBlock>,
    pub first: u64,
    pub next: u64,
}

pub fn make_chain(rng: &mut crate::kit::SimRng, nval: usize, first_block: u64, first_pregenesis: u64, len: u64) -> Chain {
    let keys: Vec<validator::SecretKey> = (0..nval).map(|_| rng.gen()).collect();
    let weights: Vec<u64> = (0..nval).map(|_| rng.gen_range(1..4)).collect();
    let schedule = validator::Schedule::new(
        keys.iter().zip(&weights).map(|(k, w)| validator::ValidatorInfo { key: k.public(), weight: *w, leader: true }),
        validator::LeaderSelection::default(),
    )
    .unwrap();
    let genesis = validator::GenesisRaw {
        chain_id: validator::ChainId(7),
        fork_number: validator::ForkNumber(1),
        protocol_version: validator::ProtocolVersion::CURRENT,
        first_block: validator::BlockNumber(first_block),
        validators_schedule: Some(schedule.clone()),
    }
    .with_hash();
    let committee = Committee {
        pubkeys: keys.iter().map(|k| k.public()).collect(),
        keys,
        weights,
        byz: vec![false; nval],
        genesis,
        schedule,
    };
    let mut blocks = BTreeMap::new();
    let mut pregenesis = BTreeMap::new();
    for n in first_pregenesis..first_block {
        let b = validator::PreGenesisBlock {
            number: validator::BlockNumber(n),
            payload: validator::Payload(vec![0x11, n as u8, (n >> 8) as u8]),
            justification: validator::Justification(vec![0x77, n as u8]),
        };
        pregenesis.insert(n, b.clone());
        blocks.insert(n, validator::Block::PreGenesis(b));
    }
    let next = first_block + len;
    for n in first_block..next {
        blocks.insert(n, validator::Block::FinalV2(make_final(&committee, n, n + 1, &[0x22, n as u8, (n >> 8) as u8], None)));
    }
    Chain { committee, blocks, pregenesis, first: first_pregenesis, next }
}

/// A block with a certificate signed by `signers` (all validators if None).
pub fn make_final(c: &Committee, number: u64, view: u64, payload: &[u8], signers: Option<&[usize]>) -> v2::FinalBlock {
    make_final_epoch(c, number, view, payload, signers, 0)
}

/// A block whose certificate names `epoch` and is genuinely signed (over that very vote) by the
/// committee `c`.
pub fn make_final_epoch(c: &Committee, number: u64, view: u64, payload: &[u8], signers: Option<&[usize]>, epoch: u64) -> v2::FinalBlock {
    let payload = validator::Payload(payload.to_vec());
    let vote = v2::ReplicaCommit {
        view: v2::View { genesis: c.genesis.hash(), epoch: validator::EpochNumber(epoch), number: validator::ViewNumber(view) },
        proposal: v2::BlockHeader { number: validator::BlockNumber(number), payload: payload.hash() },
    };
    let mut qc = v2::CommitQC::new(vote.clone(), &c.schedule);
    let all: Vec<usize> = (0..c.n()).collect();
    for &i in signers.unwrap_or(&all) {
        qc.add(&c.keys[i].sign_msg(vote.clone()), c.genesis.hash(), validator::EpochNumber(epoch), &c.schedule).unwrap();
    }
    v2::FinalBlock { payload, justification: qc }
}

struct Live {
    mgr: Arc<EngineManager>,
    kill: Option<oneshot::Sender<()>>,
    done: tokio::task::JoinHandle<()>,
}

pub async fn run(seed: u64, sched: Rc<Sched>, keep_log: bool) -> (CaseResult, Vec<String>) {
    let mut rng = kit::stream(seed, "store");
    let hist: SharedHist<Ev> = new_hist(keep_log);
    let clock = ctx::ManualClock::new();
    let root = Arc::new(ctx::test_root(&clock));
    let nval = rng.gen_range(1..=4usize);
    let first_block: u64 = if rng.gen_bool(0.5) { 0 } else { rng.gen_range(1..6) };
    let first_pre: u64 = if first_block > 0 { rng.gen_range(0..=first_block) } else { 0 };
    // "Deep queue": more than CACHE_CAPACITY (100) blocks queued while persistence crawls.
    let deep = rng.gen_range(0..100) < 12;
    let len: u64 = if deep || rng.gen_range(0..100) < 6 { rng.gen_range(104..140) } else { rng.gen_range(4..30) };
    let chain = Arc::new(make_chain(&mut rng, nval, first_block, first_pre, len));
    let c = &chain.committee;
    let hub = Arc::new(Hub::new(c.clone(), kit::stream(seed, "pad"), 0, keep_log));
    {
        let h = hist.clone();
        *hub.mirror.lock().unwrap() = Some(Box::new(move |l| h.note(l)));
    }
    let persist_now = !deep && rng.gen_range(0..100) < 35;
    let permissive = rng.gen_range(0..100) < 50;
    let store = Arc::new(Mutex::new(NodeStore::new(validator::BlockNumber(chain.first), persist_now)));
    hist.note(format!("store: validators={nval} first_block={first_block} first_pregenesis={first_pre} len={len} persist_now={persist_now}"));

    // --- submissions -------------------------------------------------------------------------
    let mut all: Vec<(u64, &'static str, validator::Block)> = vec![];
    for (n, b) in &chain.blocks {
        all.push((*n, "genuine", b.clone()));
        if rng.gen_range(0..100) < 25 {
            all.push((*n, "genuine", b.clone())); // duplicate
        }
        if rng.gen_range(0..100) < 30 {
            let bad: (&'static str, validator::Block) = match (b, rng.gen_range(0..6)) {
                (validator::Block::FinalV2(f), 0) => {
                    let mut f = f.clone();
                    f.payload = validator::Payload(vec![0x66, *n as u8]);
                    ("wrong_payload", f.into())
                }
                (validator::Block::FinalV2(_), 1) if c.n() > 1 => {
                    // certificate signed by too little weight
                    let mut idx: Vec<usize> = (0..c.n()).collect();
                    idx.sort_by_key(|i| c.weights[*i]);
                    let mut w = 0;
                    let mut few = vec![];
                    for i in idx {
                        if w + c.weights[i] < c.schedule.quorum_threshold() {
                            w += c.weights[i];
                            few.push(i);
                        }
                    }
                    if few.is_empty() {
                        ("wrong_payload_b", { let mut f = make_final(c, *n, *n + 1, &[0x23, *n as u8], None); f.payload = validator::Payload(vec![1]); f.into() })
                    } else {
                        ("underweight_certificate", make_final(c, *n, *n + 1, &[0x24, *n as u8], Some(&few)).into())
                    }
                }
                (validator::Block::FinalV2(f), 2) => {
                    // certificate whose aggregate signature belongs to another vote
                    let other = make_final(c, *n, *n + 50, &[0x25, *n as u8], None);
                    let mut f2 = make_final(c, *n, f.justification.view().number.0, &[0x26, *n as u8], None);
                    f2.justification.signature = other.justification.signature;
                    ("forged_certificate", f2.into())
                }
                (validator::Block::FinalV2(_), 3) => {
                    // a different, validly certified block cannot exist with all-honest signers; use wrong epoch
                    // Half of them: the epoch altered after signing; the other half: a certificate
                    // for an epoch the node has no schedule for, genuinely signed by this committee.
                    if *n % 2 == 0 {
                        let mut f = make_final(c, *n, *n + 1, &[0x27, *n as u8], None);
                        f.justification.message.view.epoch = validator::EpochNumber(1);
                        ("wrong_epoch", f.into())
                    } else {
                        ("unknown_epoch_genuinely_signed", make_final_epoch(c, *n, *n + 1, &[0x27, *n as u8], None, 3).into())
                    }
                }
                (validator::Block::FinalV2(_), _) => (
                    "pregenesis_above_genesis",
                    validator::Block::PreGenesis(validator::PreGenesisBlock {
                        number: validator::BlockNumber(*n),
                        payload: validator::Payload(vec![0x28]),
                        justification: validator::Justification(vec![]),
                    }),
                ),
                (validator::Block::PreGenesis(p), _) => {
                    let mut p = p.clone();
                    p.payload = validator::Payload(vec![0x29, *n as u8]);
                    ("unknown_pregenesis", validator::Block::PreGenesis(p))
                }
            };
            all.push((*n, bad.0, bad.1));
        }
    }
    let nsub = if deep { 2 } else { rng.gen_range(2..=6usize) };
    let mut lists: Vec<Vec<(u64, &'static str, validator::Block)>> = vec![vec![]; nsub];
    for x in all {
        lists[rng.gen_range(0..nsub)].push(x);
    }
    for l in lists.iter_mut() {
        match if deep { 0 } else { rng.gen_range(0..3) } {
            0 => {}                                   // in order
            1 => l.shuffle(&mut rng),                 // out of order
            _ => {
                // locally reversed windows
                for w in l.chunks_mut(4) {
                    w.reverse();
                }
            }
        }
    }

    // --- the manager (restartable) ----------------------------------------------------------
    // (incarnation, manager) of the live instance.
    let slot: Arc<Mutex<Option<(u64, Arc<EngineManager>)>>> = Arc::default();
    let start_mgr = {
        let (chain, store, hub, clock, slot) = (chain.clone(), store.clone(), hub.clone(), clock.clone(), slot.clone());
        move || -> (oneshot::Sender<()>, tokio::task::JoinHandle<()>) {
            let mut engine = SimEngine::new_incarnation(0, chain.committee.genesis.clone(), store.clone(), hub.clone());
            engine.pregenesis = Arc::new(chain.pregenesis.clone());
            if permissive {
                engine.vouch_from = Some(chain.committee.genesis.first_block.0);
            }
            let inc = engine.inc;
            let (kill, kill_recv) = oneshot::channel();
            let (slot, clock) = (slot.clone(), clock.clone());
            let done = gtokio::spawn(async move {
                let root = ctx::test_root(&clock);
                let ctx = &root;
                let Ok((mgr, runner)) = EngineManager::new(ctx, Box::new(engine), time::Duration::seconds(1)).await else {
                    return;
                };
                *slot.lock().unwrap() = Some((inc, mgr.clone()));
                let _: anyhow::Result<()> = scope::run!(ctx, |ctx, s| async {
                    s.spawn_bg(async { runner.run(ctx).await });
                    let _ = kill_recv.recv_or_disconnected(ctx).await;
                    Ok(())
                })
                .await;
            });
            (kill, done)
        }
    };
    let (mut kill, mut mgr_done) = start_mgr();
    let mut old_mgrs: Vec<tokio::task::JoinHandle<()>> = vec![];

    // --- client tasks -----------------------------------------------------------------------
    let mut handles = vec![];
    for (task, list) in lists.into_iter().enumerate() {
        let (slot, hist, root) = (slot.clone(), hist.clone(), root.clone());
        handles.push(gtokio::spawn(async move {
            for (number, variant, block) in list {
                sched_point().await;
                let Some((inc, mgr)) = slot.lock().unwrap().clone() else { continue };
                hist.rec(Ev::Submit { task, number, variant });
                // Like the gossip fetcher / the replica, callers give up after a while.
                let ctx = root.with_timeout(time::Duration::milliseconds(200));
                let r = mgr.queue_block(&ctx, block).await;
                let still_live = slot.lock().unwrap().as_ref().is_some_and(|(i, _)| *i == inc);
                let (ok, err) = match &r {
                    Ok(()) => (true, String::new()),
                    Err(ctx::Error::Canceled(_)) => (false, "canceled".into()),
                    Err(ctx::Error::Internal(e)) => (false, format!("{e:#}").chars().take(80).collect()),
                };
                hist.rec(Ev::SubmitResult { task, number, variant, ok, err });
                if ok && variant != "genuine" && still_live {
                    hist.violation("C08", "invalid_block_accepted", format!("queue_block accepted the {variant} variant of block {number}"));
                }
            }
        }));
    }
    let nreaders = rng.gen_range(1..=3usize);
    let stop = Arc::new(std::sync::atomic::AtomicBool::new(false));
    let mut readers = vec![];
    for task in 0..nreaders {
        let (slot, hist, root, chain, store, stop) = (slot.clone(), hist.clone(), root.clone(), chain.clone(), store.clone(), stop.clone());
        let mut rrng = kit::stream(seed, &format!("reader{task}"));
        readers.push(gtokio::spawn(async move {
            while !stop.load(std::sync::atomic::Ordering::SeqCst) {
                for _ in 0..rrng.gen_range(1..6) {
                    sched_point().await;
                }
                let Some((inc, mgr)) = slot.lock().unwrap().clone() else { continue };
                let q = mgr.queued();
                if q.next().0 <= q.first.0 {
                    continue;
                }
                let number = rrng.gen_range(q.first.0..q.next().0);
                let ctx = root.with_timeout(time::Duration::milliseconds(200));
                let r = mgr.get_block(&ctx, validator::BlockNumber(number)).await;
                // Judge only reads served entirely by the live incarnation.
                let (live, pruned, read_fault) = {
                    let live = slot.lock().unwrap().as_ref().is_some_and(|(i, _)| *i == inc);
                    let s = store.lock().unwrap();
                    (live && !s.dead, s.disk.first.0 > number, s.read_faults_fired > 0)
                };
                let want = chain.blocks.get(&number);
                let res = match &r {
                    Ok(Some(b)) if Some(b) == want => "ok".to_string(),
                    Ok(Some(_)) => "WRONG CONTENT".to_string(),
                    Ok(None) => "none".to_string(),
                    Err(ctx::Error::Canceled(_)) => "canceled".to_string(),
                    Err(ctx::Error::Internal(e)) => format!("error: {e:#}").chars().take(60).collect(),
                };
                hist.rec(Ev::Read { task, number, result: res.clone() });
                if !live {
                    continue;
                }
                match &r {
                    Ok(Some(b)) if Some(b) != want => hist.violation("C08", "read_wrong_block", format!("get_block({number}) returned a block which is not the genuine block {number}")),
                    Ok(None) if !pruned => hist.violation("C08", "available_block_unreadable", format!("block {number} was inside queued() = [{}, {}) but get_block returned None and it was not pruned", q.first.0, q.next().0)),
                    Err(ctx::Error::Internal(e)) if !pruned && !(read_fault && format!("{e:#}").contains("simulated read error")) => hist.violation("C08", "available_block_unreadable", format!("block {number} was inside queued() = [{}, {}) but get_block failed: {e:#}", q.first.0, q.next().0)),
                    _ => {}
                }
            }
        }));
    }

    // --- director -----------------------------------------------------------------------------
    let mut d = Director::new(seed, sched.clone(), clock.clone());
    d.tick_pct = 4;
    d.tick_sizes = vec![1_000_000, 20_000_000];
    d.max_steps = if deep { 1_500_000 } else { 400_000 };
    let p_persist = if deep { rng.gen_range(0..2u32) } else { rng.gen_range(5..40u32) };
    let p_write_error = if !deep && rng.gen_range(0..100) < 25 { 1u32 } else { 0 };
    let p_jump = if !deep && rng.gen_range(0..100) < 40 { rng.gen_range(1..4u32) } else { 0 };
    let p_prune = if !deep && rng.gen_range(0..100) < 40 { rng.gen_range(1..3u32) } else { 0 };
    let mut restarts_left = if !deep && rng.gen_range(0..100) < 50 { rng.gen_range(1..4u32) } else { 0 };
    let mut restarting: Option<u32> = None;
    let mut restarts_left_for_errors = 2u32;
    let mut pending_error_restart: Option<u32> = None;
    // A storage error takes the manager's persisting task down until the node is restarted.
    let mut error_since_restart = false;
    let mut errors_seen = 0u64;
    let mut arng = kit::stream(seed, "store-actions");
    let mut end = DriveEnd::Done;
    let mut rounds = 0u64;
    // (manager instance, lowest and highest end of queued() it has reported)
    let mut high_water: Option<(usize, u64, u64)> = None;
    loop {
        // A bounded burst of steps, then external actions.
        let handles_done = handles.iter().all(|h| h.is_finished());
        if handles_done {
            break;
        }
        let mut budget = arng.gen_range(1..12);
        let e = d
            .drive(
                || {
                    budget -= 1;
                    budget < 0
                },
                |_| {},
            )
            .await;
        if matches!(e, DriveEnd::Stuck | DriveEnd::StepLimit) {
            end = e;
            break;
        }
        rounds += 1;
        if rounds > 100_000 {
            end = DriveEnd::StepLimit;
            break;
        }
        // (3) structural invariant of the live block store.
        if let Some((inc, mgr)) = slot.lock().unwrap().clone() {
            let (q, p) = (mgr.queued(), mgr.persisted());
            if p.next() > q.next() || q.first < p.first {
                hist.violation("C08", "store_ranges_inconsistent", format!("queued = [{}, {}), persisted = [{}, {})", q.first.0, q.next().0, p.first.0, p.next().0));
            }
            // What one instance of the store has reported as available stays available (until
            // pruned): neither end of `queued()` ever moves backwards.
            let id = inc as usize;
            match high_water {
                Some((i, f, n)) if i == id => {
                    if q.next().0 < n || q.first.0 < f {
                        hist.violation("C08", "queued_range_went_backwards", format!("queued() was [{f}, {n}), now it is [{}, {}) (persisted = [{}, {}))", q.first.0, q.next().0, p.first.0, p.next().0));
                    }
                    high_water = Some((id, q.first.0.max(f), q.next().0.max(n)));
                }
                _ => high_water = Some((id, q.first.0, q.next().0)),
            }
        }
        if let Some(k) = restarting {
            // Restart in progress: wait for the old instance to wind down, then start afresh.
            if mgr_done.is_finished() || k > 200 {
                if !mgr_done.is_finished() {
                    old_mgrs.push(mgr_done);
                }
                let (k2, d2) = start_mgr();
                kill = k2;
                mgr_done = d2;
                restarting = None;
                error_since_restart = false;
                hist.rec(Ev::Note("manager restarted from the durable state".into()));
            } else {
                restarting = Some(k + 1);
            }
            continue;
        }
        // Has an armed write error fired?  Then the node is restarted a little later.
        let fired = hub.inner.lock().unwrap().faults.get("disk_error").copied().unwrap_or(0);
        if fired > errors_seen {
            errors_seen = fired;
            error_since_restart = true;
            if pending_error_restart.is_none() {
                pending_error_restart = Some(arng.gen_range(5..60u32));
            }
        }
        if let Some(k) = pending_error_restart {
            if k == 0 {
                pending_error_restart = None;
                store.lock().unwrap().dead = true;
                *slot.lock().unwrap() = None;
                let _ = kill.send(());
                kill = oneshot::channel().0;
                restarting = Some(0);
                hist.rec(Ev::Note("manager restarted after a storage error".into()));
                continue;
            }
            pending_error_restart = Some(k - 1);
        }
        let x = arng.gen_range(0..100u32);
        if x < p_persist {
            let r = store.lock().unwrap().persist_one();
            if let Some(n) = r {
                hist.fault("persist_lag");
                hist.rec(Ev::Note(format!("persisted block {}", n.0)));
            }
        } else if x < p_persist + p_jump {
            // Side channel: the execution layer obtained the next blocks by itself.
            let mut s = store.lock().unwrap();
            let k = arng.gen_range(1..6u64);
            let mut did = 0;
            for _ in 0..k {
                let n = s.disk.next().0;
                let Some(b) = chain.blocks.get(&n) else { break };
                s.disk.blocks.push(b.clone());
                did += 1;
            }
            // Pending writes which are now behind the disk are dropped by `persist_one`.
            s.publish();
            drop(s);
            if did > 0 {
                hist.fault("persistence_jump");
                hist.rec(Ev::Note(format!("side channel persisted {did} more blocks")));
            }
        } else if x < p_persist + p_jump + p_prune {
            let mut s = store.lock().unwrap();
            let have = s.disk.blocks.len();
            if have > 2 {
                let k = arng.gen_range(1..have.min(5));
                s.disk.blocks.drain(..k);
                s.disk.first = validator::BlockNumber(s.disk.first.0 + k as u64);
                s.publish();
                drop(s);
                hist.fault("prune");
                hist.rec(Ev::Note(format!("pruned {k} blocks")));
            }
        } else if x < p_persist + p_jump + p_prune + 2 && restarts_left > 0 {
            restarts_left -= 1;
            hist.fault("crash_restart");
            store.lock().unwrap().dead = true;
            *slot.lock().unwrap() = None;
            let _ = kill.send(());
            kill = oneshot::channel().0;
            restarting = Some(0);
            hist.rec(Ev::Note("manager killed".into()));
        } else if x == 98 && p_write_error > 0 && restarts_left_for_errors > 0 {
            // A failing write: the node's storage task dies with it; the node is restarted.
            restarts_left_for_errors -= 1;
            let mut s = store.lock().unwrap();
            s.fault_at = Some((s.write_attempts + 1, crate::bft::engine::WriteFault::Error));
            drop(s);
            hist.fault("write_error_armed");
        } else if x == 99 && arng.gen_range(0..10) == 0 {
            let mut s = store.lock().unwrap();
            s.fail_get_block = 1;
            s.read_faults_fired += 1;
            hist.fault("read_error_armed");
        }
    }
    let mut harness_error = None;
    if matches!(end, DriveEnd::StepLimit) {
        // The step budget ran out while submitters were still at work (deep queues with very
        // slow persistence and busy readers): the run is cut short, everything observed so far
        // still counts, the final comparison below only covers what was submitted.
        hist.probe("step_budget_exhausted");
    } else if !matches!(end, DriveEnd::Done) {
        // Submitters give up after their timeout, so they always finish; anything else is ours.
        harness_error = Some("store scenario did not finish".to_string());
    }
    // Everything persists, readers stop, the manager is shut down.
    stop.store(true, std::sync::atomic::Ordering::SeqCst);
    {
        let mut s = store.lock().unwrap();
        s.persist_now = true;
        while s.persist_one().is_some() {}
    }
    let _ = d.drive(|| readers.iter().all(|h| h.is_finished()), |_| {}).await;
    // With a prompt disk every queued block must reach it (a block dropped from the cache before
    // it was persisted stalls the queueing task for good).
    // (Not owed while a storage error has taken the persisting task down.)
    store.lock().unwrap().fault_at = None;
    if hub.inner.lock().unwrap().faults.get("disk_error").copied().unwrap_or(0) > errors_seen {
        error_since_restart = true;
    }
    let live_mgr = if error_since_restart || restarting.is_some() { None } else { slot.lock().unwrap().clone() };
    if let Some((_, mgr)) = live_mgr {
        let st = store.clone();
        let m2 = mgr.clone();
        let _ = d.drive(|| st.lock().unwrap().disk.next() >= m2.queued().next(), |_| {}).await;
        let (qn, dn) = (mgr.queued().next().0, store.lock().unwrap().disk.next().0);
        if dn < qn && harness_error.is_none() {
            hist.violation("C08", "queued_block_never_persisted", format!("queued() ends at {qn} but the execution layer only ever received blocks up to {dn}, although the disk is prompt"));
        }
    }
    let _ = kill.send(());
    let _ = d.drive(|| mgr_done.is_finished() && old_mgrs.iter().all(|h| h.is_finished()), |_| {}).await;
    d.tick_sizes = vec![500_000_000];
    d.drain().await;
    // (1)/(2): what reached the execution layer is the genuine chain, gap-free (gaps and conflicts
    // are reported by the hub as they happen).
    {
        let bad: Option<u64> = hub.inner.lock().unwrap().ledger.iter().find(|(n, b)| chain.blocks.get(n) != Some(b)).map(|x| *x.0);
        if let Some(n) = bad {
            hist.violation("C08", "non_genuine_block_persisted", format!("block {n} handed to the execution layer is not the genuine block"));
        }
    }
    let hub_v: Vec<_> = hub.inner.lock().unwrap().violations.clone();
    for v in hub_v {
        hist.lock().unwrap().violations.push(v);
    }
    let handed = hub.inner.lock().unwrap().ledger.len();
    let disk_next = store.lock().unwrap().disk.next().0;
    if handed > 0 {
        hist.probe("blocks_persisted_through_manager");
    }
    if len > 100 {
        hist.probe("cache_capacity_crossed");
    }
    if deep {
        hist.probe("deep_queue");
    }
    let states = vec![kit::mix(handed.min(40) as u64, kit::mix(restarts_left as u64, (persist_now as u64) << 1 | (first_block > 0) as u64))];
    finish(
        seed,
        "store",
        &sched,
        &hist,
        d.sim_ns,
        handed >= 2,
        states,
        json!({"validators": nval, "first_block": first_block, "first_pregenesis": first_pre, "chain_len": len, "submitters": nsub, "readers": nreaders,
               "persist_now": persist_now, "handed_to_execution_layer": handed, "durable_next": disk_next}),
        harness_error,
    )
}
