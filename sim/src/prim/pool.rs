//! C12 (pool half): the real `PoolWatch` (via hook H4) under concurrent inserts / removes,
//! against a reference set model: at most one entry per key, keys outside the allowed set never
//! exceed the quota, the quota never leaks, a pool with quota 0 admits no outsider.
use std::{collections::{BTreeSet, HashSet}, rc::Rc, sync::Arc};

use rand::Rng;
use serde_json::json;
use zksync_concurrency::{ctx, verif::{sched_point, tokio_shim as gtokio}};
use zksync_consensus_network::verif::PoolWatch;

use super::{finish, new_hist, Director, HistExt, SharedHist};
use crate::{cli::CaseResult, kit::{self, Sched}};

#[derive(Debug, Clone)]
pub enum Ev {
    Insert { task: usize, key: u32, conn: u32, ok: bool },
    Remove { task: usize, key: u32 },
}

pub async fn run(seed: u64, sched: Rc<Sched>, keep_log: bool) -> (CaseResult, Vec<String>) {
    let mut rng = kit::stream(seed, "pool");
    let hist: SharedHist<Ev> = new_hist(keep_log);
    let clock = ctx::ManualClock::new();
    let nallowed = rng.gen_range(0..=3u32);
    let nextra = rng.gen_range(1..=4u32);
    let limit = rng.gen_range(0..=2usize);
    let allowed: HashSet<u32> = (0..nallowed).collect();
    let pool: Arc<PoolWatch<u32, u32>> = Arc::new(PoolWatch::new(allowed.clone(), limit));
    let ntasks = rng.gen_range(2..=6usize);
    let mut handles = vec![];
    let mut conn_id = 0u32;
    for task in 0..ntasks {
        // A task = a sequence of connections: insert(key), hold, remove(key) iff the insert succeeded
        // (exactly what run_inbound_stream / run_outbound_stream do).
        let script: Vec<(u32, u32, u32)> = (0..rng.gen_range(1..6)).map(|_| {
            conn_id += 1;
            (rng.gen_range(0..nallowed + nextra), conn_id, rng.gen_range(0..4))
        }).collect();
        let (pool, hist) = (pool.clone(), hist.clone());
        handles.push(gtokio::spawn(async move {
            for (key, conn, hold) in script {
                sched_point().await;
                let r = pool.insert(key, conn).await;
                hist.rec(Ev::Insert { task, key, conn, ok: r.is_ok() });
                if r.is_err() {
                    continue;
                }
                for _ in 0..hold {
                    sched_point().await;
                }
                pool.remove(&key).await;
                hist.rec(Ev::Remove { task, key });
            }
        }));
    }
    let mut d = Director::new(seed, sched.clone(), clock.clone());
    d.tick_pct = 0;
    // Invariant on the real pool after every step.
    let pool2 = pool.clone();
    let hist2 = hist.clone();
    let allowed2 = allowed.clone();
    let mut max_extra = 0usize;
    let _ = d
        .drive(
            || handles.iter().all(|h| h.is_finished()),
            |_| {
                let cur = pool2.current();
                let keys: Vec<u32> = cur.iter().map(|x| x.0).collect();
                let uniq: BTreeSet<u32> = keys.iter().copied().collect();
                if uniq.len() != keys.len() {
                    hist2.violation("C12", "duplicate_pool_entry", format!("pool holds two entries for one key: {keys:?}"));
                }
                let extra = keys.iter().filter(|k| !allowed2.contains(k)).count();
                if extra > limit {
                    hist2.violation("C12", "pool_quota_exceeded", format!("{extra} keys outside the allowed set are connected, quota is {limit}"));
                }
                max_extra = max_extra.max(extra);
            },
        )
        .await;
    d.drain().await;
    // Reference model over the linearised history (insert/remove are serialised by the pool's
    // mutex and logged in the step in which they returned).
    let events = hist.lock().unwrap().events.clone();
    let mut model: BTreeSet<u32> = BTreeSet::new();
    let mut refused_dup = 0;
    let mut refused_quota = 0;
    for (no, e) in &events {
        match e {
            Ev::Insert { key, ok, .. } => {
                let extra = model.iter().filter(|k| !allowed.contains(k)).count();
                let want = if model.contains(key) {
                    refused_dup += 1;
                    false
                } else if !allowed.contains(key) && extra >= limit {
                    refused_quota += 1;
                    false
                } else {
                    true
                };
                if want != *ok {
                    hist.violation("C12", "pool_admission_differs_from_model", format!("event {no}: insert({key}) answered {ok}, reference model says {want} (pool {model:?}, allowed 0..{nallowed}, quota {limit})"));
                }
                if *ok {
                    model.insert(*key);
                }
            }
            Ev::Remove { key, .. } => {
                model.remove(key);
            }
        }
    }
    // Quota never leaks: after everybody left, `limit` new outsiders are admitted.
    if hist.lock().unwrap().violations.is_empty() {
        let (pool3, hist3) = (pool.clone(), hist.clone());
        let base = nallowed + nextra + 10;
        let h = gtokio::spawn(async move {
            for i in 0..limit as u32 {
                if pool3.insert(base + i, 0).await.is_err() {
                    hist3.violation("C12", "pool_quota_leaked", format!("after all connections left only {i} of {limit} outsiders are admitted"));
                    return;
                }
            }
            if pool3.insert(base + limit as u32, 0).await.is_ok() {
                hist3.violation("C12", "pool_quota_exceeded", format!("an empty pool admitted {} outsiders, quota is {limit}", limit + 1));
            }
        });
        let _ = d.drive(|| h.is_finished(), |_| {}).await;
        d.drain().await;
    }
    if refused_dup > 0 {
        hist.probe("duplicate_connection_refused");
    }
    if refused_quota > 0 {
        hist.probe("quota_refusal");
    }
    let states = vec![kit::mix(limit as u64, kit::mix(max_extra as u64, kit::mix(refused_dup.min(5), refused_quota.min(5))))];
    let he = if sched.live() != 0 { Some("tasks alive".to_string()) } else { None };
    finish(seed, "pool", &sched, &hist, d.sim_ns, refused_dup + refused_quota > 0, states,
        json!({"allowed": nallowed, "outsiders": nextra, "quota": limit, "tasks": ntasks, "refused_duplicate": refused_dup, "refused_quota": refused_quota}), he)
}
