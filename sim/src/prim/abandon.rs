//! C17, the must-complete half: the future of `scope::run!` references the caller's stack frame
//! and the tasks of the scope reference it too, so *leaving* the scope while tasks run is only
//! possible by dropping that future - which the scope answers by aborting the process
//! (`scope/must_complete.rs`).  A scope that lets its caller go on while its tasks are still
//! running has not joined them.
//!
//! One evaluation: a scope with a root task and 1-3 background tasks which need a few steps to wind
//! down after cancellation.  In "abandon" runs the harness drops the scope's future a few steps
//! after the root task has finished, while background tasks are still running; the *expected*
//! outcome is that the simulation process dies with SIGABRT (the caller of this module runs it in
//! a child and knows from the seed that an abort is due).  Surviving the drop with a task of the
//! scope still running is the violation.  Control runs await the future to the end; there an abort
//! is a violation like anywhere else.
use std::{future::Future, pin::Pin, rc::Rc, sync::{atomic::{AtomicBool, AtomicU32, Ordering}, Arc, Mutex}, task::{Context, Poll, Waker}};

use rand::Rng;
use serde_json::json;
use zksync_concurrency::{ctx, scope, verif::{sched_point, tokio_shim as gtokio}};

use crate::{
    cli::CaseResult,
    kit::{self, Sched},
    prim::{finish, new_hist, HistExt, SharedHist},
};

#[derive(Debug, Clone)]
pub enum Ev {
    Note(String),
}

/// Does the run of `seed` abandon its scope (and is therefore expected to abort)?
pub fn abandons(seed: u64) -> bool {
    let mut rng = kit::stream(seed, "abandon-kind");
    rng.gen_range(0..100) < 70
}

struct Shared {
    drop_now: AtomicBool,
    waker: Mutex<Option<Waker>>,
}

/// Polls the scope's future until told to drop it.
struct Abandoner {
    inner: Option<Pin<Box<dyn Future<Output = anyhow::Result<()>> + Send>>>,
    shared: Arc<Shared>,
}

impl Future for Abandoner {
    /// true = the inner future completed, false = it was dropped.
    type Output = bool;
    fn poll(mut self: Pin<&mut Self>, cx: &mut Context<'_>) -> Poll<bool> {
        *self.shared.waker.lock().unwrap() = Some(cx.waker().clone());
        if self.shared.drop_now.load(Ordering::SeqCst) {
            // Leaving the scope: on the unchanged tree this line aborts the process.
            self.inner = None;
            return Poll::Ready(false);
        }
        match self.inner.as_mut().unwrap().as_mut().poll(cx) {
            Poll::Ready(_) => Poll::Ready(true),
            Poll::Pending => Poll::Pending,
        }
    }
}

pub async fn run(seed: u64, sched: Rc<Sched>, keep_log: bool) -> (CaseResult, Vec<String>) {
    let mut rng = kit::stream(seed, "abandon");
    let hist: SharedHist<Ev> = new_hist(keep_log);
    let abandon = abandons(seed);
    let clock = ctx::ManualClock::new();
    let n_bg = rng.gen_range(1..=3usize);
    let root_steps = rng.gen_range(0..6u32);
    let wind_down: Vec<u32> = (0..n_bg).map(|_| rng.gen_range(4..40u32)).collect();
    let drop_after = rng.gen_range(1..4u32);
    hist.note(format!("abandon={abandon} background tasks={n_bg} wind-down steps={wind_down:?} root steps={root_steps} drop {drop_after} steps after the root finished"));
    let root_done = Arc::new(AtomicBool::new(false));
    let running = Arc::new(AtomicU32::new(0));
    let shared = Arc::new(Shared { drop_now: AtomicBool::new(false), waker: Mutex::new(None) });
    let inner: Pin<Box<dyn Future<Output = anyhow::Result<()>> + Send>> = {
        let (root_done, running, clock) = (root_done.clone(), running.clone(), clock.clone());
        Box::pin(async move {
            let root = ctx::test_root(&clock);
            scope::run!(&root, |ctx, s| async move {
                for k in wind_down.iter().copied() {
                    let running = running.clone();
                    let ctx: &ctx::Ctx = ctx;
                    s.spawn_bg(async move {
                        running.fetch_add(1, Ordering::SeqCst);
                        ctx.canceled().await;
                        for _ in 0..k {
                            sched_point().await;
                        }
                        running.fetch_sub(1, Ordering::SeqCst);
                        Ok(())
                    });
                }
                for _ in 0..root_steps {
                    sched_point().await;
                }
                root_done.store(true, Ordering::SeqCst);
                Ok(())
            })
            .await
        })
    };
    let caller = gtokio::spawn(Abandoner { inner: Some(inner), shared: shared.clone() });
    // Director: plain stepping (the scenario has no timers).
    let mut after_root = 0u32;
    let mut steps = 0u64;
    loop {
        sched.settle().await;
        if caller.is_finished() || steps > 100_000 {
            break;
        }
        if abandon && root_done.load(Ordering::SeqCst) && !shared.drop_now.load(Ordering::SeqCst) {
            after_root += 1;
            if after_root >= drop_after && running.load(Ordering::SeqCst) > 0 {
                hist.note(format!("the caller drops the scope's future ({} task(s) of the scope still running)", running.load(Ordering::SeqCst)));
                shared.drop_now.store(true, Ordering::SeqCst);
                if let Some(w) = shared.waker.lock().unwrap().take() {
                    w.wake();
                }
            }
        }
        if !sched.step().await {
            break;
        }
        steps += 1;
    }
    let completed = caller.await.unwrap_or(true);
    if !completed {
        // We are still alive after the drop.
        let left = running.load(Ordering::SeqCst);
        if left > 0 {
            hist.violation(
                "C17",
                "scope_left_while_tasks_running",
                format!("the caller dropped the future of scope::run! after the root task had finished; the process was not aborted and {left} task(s) of the scope are still running - control has left the scope before its tasks were joined"),
            );
        } else {
            hist.probe("abandoned_after_all_tasks_finished");
        }
    } else {
        hist.probe("scope_awaited_to_the_end");
        if running.load(Ordering::SeqCst) != 0 {
            hist.violation("C17", "scope_returned_before_its_tasks", format!("{} task(s) still running at return", running.load(Ordering::SeqCst)));
        }
    }
    // Let whatever is left run out.
    for _ in 0..200_000 {
        sched.settle().await;
        if !sched.step().await {
            break;
        }
    }
    let he = if sched.live() != 0 && hist.lock().unwrap().violations.is_empty() { Some(format!("{} tasks alive", sched.live())) } else { None };
    finish(seed, "abandon", &sched, &hist, 0, true, vec![kit::mix(abandon as u64, kit::mix(n_bg as u64, drop_after as u64))],
        json!({"abandon": abandon, "background_tasks": n_bg, "completed": completed}), he)
}
