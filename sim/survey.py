import sys,json,re
rows=[]
for l in sys.stdin:
    if not l.startswith("seed"):
        if l.startswith(("faults","probes","aborted")) or "runs in" in l or "VIOLATION" in l: print(l.strip()[:600])
        continue
    m=re.search(r'steps\s+(\d+) events\s+(\d+) sim\s+(\d+)ms.*?(\{.*\})\s*$', l)
    d=json.loads(m.group(4)); rows.append((d['blocks_committed'], d['max_view'], d['min_height'], d['max_height'], len(d['validators']), sum(d['byzantine']), int(m.group(1)), d['actions']))
rows.sort()
print("(blocks,max_view,min_h,max_h,n,byz,steps,actions)")
print(" ".join(str(r) for r in rows))
