#!/bin/sh
# usage: try.sh <patch.diff> <check args...> ; applies the patch to /repo, runs the check, reverts.
# Refuses to run when /repo has uncommitted changes (the revert would destroy them).
p="$1"; shift
if [ -n "$(git -C /repo status --porcelain)" ]; then echo "refusing: /repo has uncommitted changes" >&2; exit 3; fi
git -C /repo apply "$p" || exit 3
trap 'git -C /repo checkout -- . ; git -C /repo clean -fdq -- node' EXIT INT TERM
/verif/check "$@" 2>&1 | grep -v "^  evidence" | tail -6
