#!/bin/sh
# usage: try.sh <patch.diff> <check args...> ; applies the patch to /repo, runs the check, reverts.
p="$1"; shift
git -C /repo apply "$p" || exit 3
trap 'git -C /repo checkout -- .' EXIT INT TERM
/verif/check "$@" 2>&1 | grep -v "^  evidence" | tail -6
