#!/bin/bash
# Confirms seeded changes in a scratch worktree: for each <id> in args:
#  1. patch applied: whole workspace test suite passes (except the demo)
#  2. patch + demo: the demo fails
#  3. demo only: the demo passes
# Writes /verif/seeded/<id>/confirm.log and a one-line verdict to stdout.
WT=/tmp/wt-confirm
export CARGO_TARGET_DIR=$WT/node/target
if [ ! -d $WT ]; then git -C /repo worktree add --detach $WT HEAD >/dev/null 2>&1; fi
for id in "$@"; do
  d=/verif/seeded/$id
  log=$d/confirm.log; : > $log
  cd $WT && git checkout -q -- . && git clean -fdq -- node/components node/libs >/dev/null
  git -C $WT checkout -q --detach $(git -C /repo rev-parse HEAD) 2>>$log
  # which tests does the demo add?
  if ! git apply --check $d/patch.diff 2>>$log; then echo "$id: PATCH DOES NOT APPLY"; continue; fi
  git apply $d/patch.diff
  (cd node && cargo nextest run --workspace --no-fail-fast --offline --test-threads 12 2>&1 | grep -E "^\s+(FAIL|TIMEOUT|SIG[A-Z]+|ABORT)|Summary|^error" | tail -25) >> $log 2>&1
  suite=$(grep -E "^\s*Summary" $log | tail -1)
  git apply $d/demo.diff 2>>$log || { echo "$id: DEMO DOES NOT APPLY ($suite)"; continue; }
  # names of new test functions in the demo
  names=$(grep -E '^\+\s*(async )?fn [a-z_0-9]+' $d/demo.diff | grep -B1 -A0 . | sed -E 's/^\+\s*(async )?fn ([a-z_0-9]+).*/\2/' | sort -u | tr '\n' ' ')
  tests=$(grep -E -A3 '^\+\s*#\[(tokio::)?test' $d/demo.diff | grep -E '^\+\s*(async )?fn ' | sed -E 's/^\+\s*(pub )?(async )?fn ([a-zA-Z_0-9]+).*/\3/' | sort -u)
  filt=$(echo $tests | sed 's/ / | test(/g; s/^/test(/; s/$/)/' | sed 's/test(\([a-zA-Z_0-9]*\))/test(~\1)/g')
  echo "demo tests: $tests ; filter: $filt" >> $log
  (cd node && cargo nextest run --workspace --no-fail-fast --offline --test-threads 12 -E "$filt" 2>&1 | grep -E "FAIL|PASS|TIMEOUT|Summary|error(\[|:)" | tail -15) >> $log 2>&1
  with=$(grep -E "^\s*Summary" $log | tail -1)
  git apply -R $d/patch.diff
  (cd node && cargo nextest run --workspace --no-fail-fast --offline --test-threads 12 -E "$filt" 2>&1 | grep -E "FAIL|PASS|TIMEOUT|Summary|error(\[|:)" | tail -15) >> $log 2>&1
  without=$(grep -E "^\s*Summary" $log | tail -1)
  echo "$id: SUITE+patch[$suite] DEMO+patch[$with] DEMO-only[$without]"
done
cd $WT && git checkout -q -- . && git clean -fdq -- node/components node/libs
