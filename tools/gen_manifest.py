#!/usr/bin/env python3
"""Regenerates /verif/MANIFEST.json from the table below (keeps it schema-valid)."""
import json, subprocess

HOOK_COMMITS = subprocess.run(
    ["git", "-C", "/repo", "log", "--format=%h %s"], capture_output=True, text=True
).stdout.splitlines()
HOOKS = [l.split()[0] for l in HOOK_COMMITS if l.split(" ", 1)[1].startswith("verif hook")]

BFT_NOTE = ("Assumes Byzantine weight <= f, atomic durable writes below EngineInterface, unforgeable BLS signatures, "
            "static validator schedule (epoch 0); interleavings at await-point granularity on one thread.")

CHECKS = {
 "C01": dict(engine="bftsim", design="DESIGN.md section 5 (C01), section 4 (E1)",
   technique="deterministic simulation with fault injection: seeded search over schedules, network faults, crashes and Byzantine behaviours; global ledger oracle",
   text="Seeded search over simulated cluster executions of the real replica code (bft::Config::run on a real EngineManager). A global ledger oracle checks after every event that no two correct nodes hand different payloads for one block number to the execution layer, that no node replaces a block (also on its durable chain across restarts), and that no two conflicting commit certificates ever appear in correct nodes' messages or stores. A clean batch is evidence bounded by the reported coverage, not a proof. Additional populations: 'hidden' (directed: commit votes reach one correct node only, that node is cut off once it alone holds the certificate, the rest time out and continue with a Byzantine validator among them, later the partition heals), 'twins' (the Byzantine validator is 2-3 instances of the real replica code sharing one key, each with its own disk and a changing audience among the correct nodes - rule-abiding, well-timed equivocation - next to the scripted adversary) and 'node/cluster' (4-6 complete executor::Executor nodes over simulated TCP, agreement over everything any execution layer was handed).",
   note=BFT_NOTE),
 "C02": dict(engine="bftsim", design="DESIGN.md section 5 (C02)",
   technique="deterministic simulation; history-level oracle over correct commit votes + full Byzantine weight (potential certificates)",
   text="History-level half of C02: the monitor treats a block as potentially certified as soon as correct voters plus the entire Byzantine weight reach the quorum, whether or not a certificate was assembled, and checks uniqueness per block number, that no correct validator later votes against or below it, and that every certificate appearing anywhere is for that block. The adversary assembles boundary timeout certificates (hiding high votes, several distinct votes). The pure decision function over all conceivable certificates is not claimed (DESIGN section 6).",
   note=BFT_NOTE),
 "C03": dict(engine="bftsim", design="DESIGN.md section 5 (C03)",
   technique="deterministic simulation with fault injection: enumeration of a crash inside every durable write (applied / lost) of deterministic base histories, plus seeded sampling of crash points in swarm executions; vote-history and write-ahead oracles",
   level="fault_enumeration",
   text="Every message a correct validator signs is examined at the instant it reaches the outbound channel, over all incarnations of the validator: no two different commit votes per view, no commit vote after a timeout vote for that view, signed views monotone, and the durable replica state already covers the message (write-ahead). Crashes are injected between any two events and inside the k-th durable write, applied or not; restarts load only the durable state. Two populations: 'crashy' samples crash points in long swarm executions; 'crashenum' ENUMERATES them - for a deterministic base history (committee of 2-4, about ten views, network faults, late duplicates, Byzantine validators where the weights allow) every (correct node, durable write k <= 40, applied/lost) is one run in which that node dies inside that write, is restarted from its durable state and is shown old messages again (3 base histories in the quick tier, 150 in the thorough tier; the evidence counts points fired and bases not covered exhaustively).",
   note=BFT_NOTE + " Leader proposals are outside the write-ahead oracle by design (DESIGN section 5, C03)."),
 "C05": dict(engine="bftsim", design="DESIGN.md section 5 (C05)",
   technique="deterministic simulation; per-step replica snapshots (hook H3) checked for monotonicity, justification, certificate genuineness against the signing history, self-justifying output",
   text="Oracles 1-3 of DESIGN section 5: after every replica step the snapshot shows view and both high certificates never decreasing (and a restart never starting below the durable state), the current view justified by a held certificate, every held or emitted certificate genuine with respect to the run's signing history (not judged by the repo's own verify), and every emitted message verifying in isolation. The lock-step reference model (oracle 4) is not built yet. Oracle 4: a reference replica written from the informal specification (sim/src/bft/refmodel.rs) makes every step in lock-step with every correct replica and is compared on verdict (which guard rejects), state afterwards, messages sent and vote-cache sizes.",
   note=BFT_NOTE),
 "C06": dict(engine="bftsim", design="DESIGN.md section 5 (C06)",
   technique="deterministic simulation; adversarial prefix then fair synchronous suffix; bounded-liveness oracle in views with correct leaders",
   text="Bounded liveness: from the state an adversarial prefix (loss, partitions, crashes, Byzantine messages, disk errors) leaves behind, a fair synchronous suffix must make every correct node's durable height grow before 5 views with correct leaders have been entered and left by all correct nodes, and views must never stop advancing for 4.5 timeouts. A stall is a violation with a replayable plan, not a wall-clock timeout. End to end: population node/cluster runs 4-6 complete nodes (network + bft + engine manager, executor::Executor) over simulated TCP with connection resets, a stop/restart from durable state and persistence lag; after the last fault every validator's durable chain must grow by 3 blocks within 1200 simulated seconds.",
   note=BFT_NOTE + " Fairness of the suffix is part of the trusted base; L = 5 is calibrated on the unchanged tree then frozen."),
 "C10": dict(engine="bftsim", design="DESIGN.md section 5 (C10)",
   technique="deterministic simulation with a Byzantine adversary sending well-signed absurd messages; panic oracle",
   text="Message-level half of C10: Byzantine validators send well-signed consensus messages with extreme field values (view/block numbers 0,1,2^64-2,2^64-1, empty and oversized signer sets, oversized payloads, empty certificates) into running clusters; any panic in code under test (outside an already crashed incarnation) is a violation: the harness profile unwinds, a production build aborts. Byzantine validators also attach corrupted copies of genuine certificates to well-signed timeouts. Population node/limits (whole node over simulated TCP, authenticated peer which floods all RPCs, serves get_block itself and announces absurd block-store ranges such as last = 2^64-1): any panic inside the node is a violation.",
   note="Decoders as pure functions over all byte strings are not claimed (DESIGN section 6); the byte-stream half is added by the pipe engine."),
 "C08": dict(engine="primsim", design="DESIGN.md section 5 (C08)",
   technique="deterministic simulation of the real EngineManager over a simulated disk with lag / jumps / pruning / restarts and concurrent submitters; reference chain + history oracles",
   text="A genuine certified chain plus invalid variants is submitted concurrently, in and out of order and duplicated, to the real EngineManager while readers call get_block and the simulated persistence layer lags, jumps ahead through a side channel, prunes and is restarted from its durable state. Oracles: only genuine blocks reach the execution layer, in order and without gaps from the durable head; never two blocks for one number; queued/persisted ranges consistent at every step; any number inside queued() reads back the genuine block until pruned; invalid submissions are rejected. The same oracles are active on the manager inside every consensus-cluster run. Additional oracle: within one store instance neither end of queued() ever moves backwards (what was reported available stays available until pruned); invalid variants include a certificate for an epoch without known schedule that is genuinely signed by the committee.",
   note="EngineInterface contract: queue_next_block accepts the block directly after the previously queued one; blocks at or below the durable head are ignored. The peer path (blocks arriving as get_block RPC answers from real nodes, some of them altered) is the node/sync population."),
 "C12": dict(engine="primsim", design="DESIGN.md section 5 (C12)",
   technique="deterministic simulation of whole network nodes over simulated TCP against a handshake adversary (replay, relay, forged signer, wrong chain, outsider, impersonating the dialled peer); ground-truth oracle on who holds which secret; plus the real connection pool under concurrent inserts/removes against a reference set model",
   text="Handshake half: a real node runs its accept loop, preface, noise and handshake code and dials peers from its address book over a simulated TCP layer; the adversary holds a Byzantine committee key and outsider keys, can listen, dial, hijack an address and record handshakes of a second honest node, and plays one of 14 strategies per run. Whenever an identity appears in one of the victim's four pools the harness demands a live connection in that direction whose far-end actor holds that identity's secret key, committee membership on the validator network, and the inbound quota for unlisted gossip peers. Pool half: concurrent connections race for the same identities and for the quota of unlisted peers on the real PoolWatch; after every step the pool holds at most one entry per key and at most `quota` keys outside the allowed set, every admission decision equals a reference set model, and the quota neither leaks nor over-admits. Strategies now number 17 (own-identity claim racing the loopback connection, repeated identities on the gossip endpoint, hijack of the victim's own address); oracles: per-connection attribution (the far end of the very connection holding a pool entry must hold the key; hook H4 reports the TCP peer address of inbound entries), at quiescent points at most one admitted connection per identity and every pool entry backed by a connection the node still holds. Strategy GO: the victim has two configured outbound gossip peers and the adversary answers at the address of one with a genuine handshake of the other.",
   note="The adversary cannot forge signatures (ed25519 / BLS assumed unforgeable); address announcements reach the victim's book through its real push_validator_addrs RPC handler (entered by hook H4) rather than through a gossip connection."),
 "C13": dict(engine="pipesim", design="DESIGN.md section 5 (C13)", level="fault_enumeration",
   technique="deterministic simulation of the real noise stream over fragmenting / back-pressuring pipes, plus enumeration of every single-point ciphertext tampering (frame x kind) per base session",
   text="Benign half (exploration): the real noise::Stream on both ends of a simulated duplex whose every poll is a seeded decision (1-byte reads splitting the length prefix, partial writes, spurious Pending, capacity 1); bytes read must be a prefix of bytes accepted, everything flushed must arrive, EOF exactly at the end after shutdown, no wire frame above 2+65535 bytes. Tamper half (fault enumeration): for each base session a relay applies each of 11 single-point tamperings to each ciphertext frame in turn; the reader must deliver a correct prefix and then fail or reach EOF, never altered, reordered or duplicated plaintext, also on subsequent reads. Backlog mode: many small individually flushed messages pile up before the reader starts (frame sizes random or dividing a number next to the reader's buffer capacity). A session which does not come to rest on a transport that only fragments and delays is a violation.",
   note="Per base run the (frame, kind) space is enumerated completely; positions inside a frame are represented by one byte per kind (length, body, tag). snow and ChaChaPoly are trusted."),
 "C14": dict(engine="pipesim", design="DESIGN.md section 5 (C14)",
   technique="deterministic simulation of two real multiplexers over a fragmenting pipe with generated application workers; pairing / ordering / EOS / stream-limit / buffer-bound oracles",
   text="Two real Mux endpoints with random, unequal capability and stream limits and tiny buffer limits exchange self-describing data on many concurrent transient streams in both directions. After the run the uses of both sides must pair up one-to-one per capability, each reader having received exactly its counterpart's bytes in order (complete when read to end-of-stream), end-of-stream only after the counterpart closed; during the run streams held per capability never exceed min(local, peer limit) and payload pulled from the transport but not consumed never exceeds read_buffer_size. 10 % of the pipe/mux runs use frame sizes at and just above the largest length a frame header can carry (65535 / 65536 / 65537) and single writes of 65-70 kB without flush: a configuration the multiplexer refuses is fine, delivering anything but the bytes written is not.",
   note="Buffer bound checked with cooperative readers only (see evidence assumptions); non-cooperative frame-level peers belong to the C10 byte-level check."),
 "C15": dict(engine="primsim", design="DESIGN.md section 5 (C15)",
   technique="deterministic simulation of the real Limiter (seeded schedules, director-controlled clock, cancellations; token-bucket / FIFO / leak oracles) and of a real rpc::Service server against honest and greedy clients (wire-level OPEN timestamps, handler concurrency)",
   text="Per-RPC-stream half: a real rpc::Service server over a simulated pipe faces the real client or a greedy raw-multiplexer client; the OPEN frames the server sends per RPC (parsed from its wire, stamped with simulated time) obey burst + T/refresh + 1 in every window, handler starts obey it up to the INFLIGHT streams opened earlier, and never more than INFLIGHT handlers run concurrently. Limiter half: 1-6 client tasks acquire / hold / drop / cancel on the real Limiter while the director advances the manual clock; over the grant history: no window of length T sees more than burst + T/refresh + 1 permits, waiters are served in arrival order, cancelled waits consume nothing (no leak: acquire(burst) is immediate after burst*refresh of idleness), nothing above burst is ever granted. In situ (population node/limits): a whole network::Network node with per-run randomised Config.rpc rates and an adversary that authenticates properly on the validator and gossip endpoints and then speaks through a raw multiplexer without limiter (12 announced streams per RPC, idle phases, 1-6 greedy workers per RPC); requests are observed behind the node (consensus input channel with withheld acks, execution-layer calls for get_block / push_tx, ping responses, completed stream opens) and must obey the rate configured for their RPC: starts <= burst + T/refresh + 1 + INFLIGHT, opens <= burst + T/refresh + 1 + min(INFLIGHT, burst), concurrent consensus requests <= INFLIGHT.",
   note="Time is the ManualClock; interleavings at await-point granularity."),
 "C17": dict(engine="primsim", design="DESIGN.md section 5 (C17)",
   technique="deterministic simulation: generated task-tree programs (async and blocking tasks) on the real scope::run! / run_blocking! under seeded schedules with preemption points inside the failure path; event-log oracle",
   text="Random programs (main/background, async/blocking tasks, tasks spawning tasks, joins, nested run!/run_blocking! scopes, cancel(), errors, panics, scope timeouts, caller deadlines) run on the real scope implementation under the gate scheduler; blocking tasks are OS threads which run only while holding the scheduler's baton and can be preempted inside Once::send, set_err and run_blocking. Oracle over start/end/active events vs the scope's return: returns only after all tasks ended; root's value iff nobody failed, else the error of the first failing task (with blocking tasks: of a task whose routine ended before any other failing task was fully resolved, and never an error that merely reports a cancellation which only another task's failure can have caused); a panic is re-raised after all tasks ended; the context is inactive from the event at which a task failed / the last main task completed / cancel() was called; the program terminates once the caller's deadline passed. A worker process dying (use-after-free after an early return) counts as a violation.",
   note="Half of the programs are purely async (failure atomic at await-point granularity, exact first-failure rule); the other half mix in blocking tasks and blocking scopes, which interleave at the H1 preemption points only."),
 "C18": dict(engine="primsim", design="DESIGN.md section 5 (C18)",
   technique="deterministic simulation: concurrent batch pushes into real address books; reference map model, independent signature re-verification, cross-book convergence",
   text="2-3 real ValidatorAddrsWatch instances receive the same batches of announcements in different orders from concurrent peer tasks. After every batch the verdict equals the reference model's (all-or-nothing batches, duplicates rejected, outsiders skipped, only strictly newer (version, timestamp) replaces, bad signatures on newer entries reject the batch); at the end every entry is re-verified independently, belongs to the committee, the book equals the model, and books that owe convergence agree. In-situ population (prim/addrs-node): whole nodes, requests of up to 100 entries (mostly padding by non-members, crafted 'valid, padding, forged' shapes) through the node's real push_validator_addrs RPC handler.",
   note="Announcements are generated with few distinct (version, timestamp) pairs so ties and reversals abound."),
 "C19": dict(engine="primsim", design="DESIGN.md section 5 (C19)",
   technique="deterministic simulation: real fetch queue with requester and peer-worker tasks, failures, cancellations, growing availability; history oracles + fair-suffix progress",
   text="History oracles over accept/outcome/request events of the real gossip fetch queue: a block is held by at most one peer, handed only to a peer whose announced range contains it, is the lowest outstanding request at some event inside the accept window, is handed out again after a failure, disappears when its request is cancelled; and once every peer announces everything and always succeeds all outstanding requests complete (lost wake-up detector). In-situ population (node/sync): a victim node fetches a certified chain from 1-2 real source nodes over simulated TCP while sources serve altered blocks / fail reads and connections are reset; its store is always a prefix of the genuine chain and complete within 600 simulated seconds after the last fault. Quiescence oracle in the queue population: no idle worker whose peer announced the lowest outstanding request.",
   note="One requester per block number at a time (as the block fetcher does); announced ranges only grow."),
 "C16": dict(engine="bftsim", design="DESIGN.md section 5 (C16)",
   technique="deterministic simulation; sequential reference model of the prunable input channel under concurrent senders; Byzantine floods of future-view votes with cache-size bounds checked on every replica snapshot",
   text="Channel half: 2-5 sender tasks and the consumer on the real bft::create_input_channel(); every recv result must equal the reference queue's (one entry per sender and kind; strictly higher view replaces and moves to the back; equal/lower dropped; bad signatures dropped; pop front), which also gives bound, freshest-survives and arrival order. Replica half: up to f weight of validators flood validly signed commit/timeout votes for many distinct future views; after every replica step the vote caches (latest-view maps, partial certificates per view) must stay within bounds that depend on the committee size only. 35% of the channel runs are parallel bursts: senders are simulated OS threads and send() is interleaved at every access to the shared queue (watch shim); the queue must end with one message per (sender, kind), of highest view.",
   note=BFT_NOTE),
}

NA = {
 "C04": "verify/add of certificates are pure functions of (certificate, committee): no schedule, clock, fault or second party for a simulator to vary; the system-level consequence (no correct node acts on a certificate not backed by the signing history) is monitored under C05.",
 "C07": "pure 64-bit integer arithmetic; quantifier ranges over inputs only.",
 "C09": "pure codec round-trip/canonicity; quantifier ranges over inputs only.",
 "C11": "pure function Schedule x u64 -> key; its two defects (F1, F2) were nevertheless reached by simulation as node panics and fixed (known_findings.json).",
}
ALL = ["C%02d" % i for i in range(1, 20)]
for p in ALL:
    if p not in CHECKS and p not in NA:
        NA[p] = "not yet built in this revision (planned, see DESIGN.md section 5)."

ENGINES = [
 {"name": "nodesim", "path": "sim/src/node", "serves_properties": ["C12"],
  "kind_free_text": "deterministic simulation of whole network::Network nodes (accept loop, preface, noise, handshakes, pools, rpc) over a simulated TCP seam, with scripted adversaries built from raw protocol pieces"},
 {"name": "pipesim", "path": "sim/src/pipes", "serves_properties": [p for p, c in CHECKS.items() if c["engine"] == "pipesim"],
  "kind_free_text": "deterministic simulation of byte-stream components: real noise::Stream / mux / rpc::Service endpoints over SimPipe (an in-memory duplex whose every poll is a seeded decision), wire observers and a tampering relay"},
 {"name": "primsim", "path": "sim/src/prim", "serves_properties": [p for p, c in CHECKS.items() if c["engine"] == "primsim"] + ["C16"],
  "kind_free_text": "deterministic simulation of concurrency primitives and bookkeeping structures: the real Limiter, prunable channel, scopes, EngineManager/BlockStore, PoolWatch, address book and fetch queue driven by generated client tasks under the gate scheduler and a director-controlled clock, against small executable reference models"},
 {"name": "bftsim", "path": "sim/src/bft", "serves_properties": [p for p, c in CHECKS.items() if c["engine"] == "bftsim"],
  "kind_free_text": "deterministic simulation: real bft::Config::run replicas + real EngineManager on a simulated execution layer/disk, simulated bus, per-node manual clocks, seeded gate scheduler over a real tokio current-thread runtime, Byzantine adversary, crash/restart from durable state"},
]

def level(p):
    return CHECKS[p].get("level", "exploration")

m = {
 "version": 1,
 "setup_cmd": "cd /verif/sim && CARGO_NET_OFFLINE=true cargo build --offline",
 "hooks": {
   "guard": "--cfg era_consensus_verif",
   "enable": "RUSTFLAGS='--cfg era_consensus_verif --cfg tokio_unstable' (set by /verif/sim/.cargo/config.toml; the harness is an external cargo workspace with path dependencies on /repo/node/*, so every check rebuilds /repo's working tree with the hooks on)",
   "baseline_off_cmd": "cd /repo/node && cargo nextest run --workspace --no-fail-fast --tool-config-file pb:/w/lib/nextest.toml --profile pb --test-threads 8 --offline",
   "source_commits": HOOKS,
   "add_only": True,
 },
 "engines": ENGINES,
 "checks": [
   {"property_id": p, "quick_cmd": f"./check {p} --tier quick", "thorough_cmd": f"./check {p} --tier thorough",
    "evidence_file": f"/verif/evidence/{p}.json", "replay_cmd_template": f"./check {p} --replay {{path}}",
    "engine": c["engine"], "technique": c["technique"],
    "level_claimed": {"category": level(p), "text": c["text"], "design_ref": c["design"]},
    "level_note": c["note"]}
   for p, c in sorted(CHECKS.items())],
 "not_applicable": [{"property_id": p, "reason": r} for p, r in sorted(NA.items())],
 "notes": "See DESIGN.md. Exit codes of every check: 0 held, 1 violation (VIOLATION property=<id> replay=<path>), 2 harness error. VERIF_SEED (default 1) seeds everything; tiers are budgets in runs, not seconds.",
}
json.dump(m, open("/verif/MANIFEST.json", "w"), indent=1)
print("checks:", sorted(CHECKS), "n/a:", sorted(NA))
