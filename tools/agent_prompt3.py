#!/usr/bin/env python3
"""Round 3: as agent_prompt.py, plus a list of ideas of earlier rounds which the agent must not repeat, two changes instead of three."""
import json, sys
pid, wt = sys.argv[1], sys.argv[2]
ex = json.load(open('/verif/tools/round3_exclusions.json')).get(pid, [])
excl = '\n'.join(f'   - {e}' for e in ex)
prop = next(json.loads(l) for l in open('/verif/properties.jsonl') if json.loads(l)['id'] == pid)
print(f"""You are helping to evaluate a verification setup for the Rust repository matter-labs/era-consensus (ChonkyBFT consensus layer for zkSync Era). Your job is to write realistic *property-breaking changes* (like subtle bugs a developer could introduce), NOT to fix anything.

Work ONLY inside your own scratch git worktree: {wt}  (create it first with:  git -C /repo worktree add --detach {wt} HEAD ). The cargo workspace is in {wt}/node. Never modify /repo itself, never read or write anything under /verif, and do not look at other /tmp/wt-* directories. Everything must work offline (use `cargo ... --offline`; set `export CARGO_TARGET_DIR={wt}/node/target`). The machine is shared: use at most `-j 4` / `--test-threads 4` (and `-j 4` for every cargo build).

The semantic property your changes must break (this is all the context you get about it):

{json.dumps(prop, indent=1)}

Produce up to TWO different, independent changes (each a separate patch against the unmodified worktree HEAD) such that for each change:
 1. the workspace still compiles and the existing test suite still passes with the change applied (at the very least run the tests of every crate you touched and of the crates depending on it, e.g. `cd {wt}/node && cargo nextest run -p <crate> --offline --test-threads 4`; ideally the whole workspace: `cargo nextest run --workspace --offline --test-threads 4`; one pre-existing test is known to fail always, ignore that one only if it also fails without your change);
 2. the change breaks the property above in the production code path (not in test helpers), and does NOT break anything else blatantly (ordinary use keeps working);
 3. it needs something specific to manifest: a particular interleaving, a crash or fault at a particular point, a multi-step sequence of operations, an unusual input, or two cooperating sites that each look fine alone. Do NOT produce changes that ordinary use or the existing tests would expose at once;
 4. you provide a demonstration: a new test (or small program) that FAILS with the change and PASSES without it, deterministic if at all possible. Put the demonstration in a separate file/patch from the change itself. You must actually run it both ways and report the outputs.
Prefer changes that look like plausible mistakes or 'optimisations' (an off-by-one in a threshold, a swapped order of two operations, a dropped check on one path, a comparison direction, state updated before/after a persist, a cache cleaned too eagerly...). Make the two changes different in kind and location.

Earlier rounds of this exercise already delivered the following ideas for this property. Do NOT deliver any of them again, nor a trivial variant (same site, same effect); look at *other* clauses of the statement, other code paths that implement it (less central files, error and cancellation paths, restart paths, boundary conditions, the interplay of two components), and other kinds of trigger:
{excl}
 The code under `#[cfg(era_consensus_verif)]` and the `verif` modules are instrumentation hooks: do not touch or rely on them.

Deliverables: write, for k = 1..2, the files
   {wt}/OUT/{pid}-k/patch.diff      (git diff of the change only, relative to the repo root, appliable with `git apply` on HEAD)
   {wt}/OUT/{pid}-k/demo.diff       (git diff adding the demonstration test/program only)
   {wt}/OUT/{pid}-k/README.md       (what the change does, why it breaks the property, what it needs in order to manifest, exact commands you ran and their results with and without the change)
Leave the worktree checked out at the unmodified HEAD when you finish (git checkout -- . ; remove untracked files except OUT/), and delete {wt}/node/target to free disk space. In your final answer, summarise each change in 3-4 lines. If you cannot find two, deliver fewer - quality matters more than quantity.""")
