#!/bin/bash
# usage: bg_eval.sh <patch-file> <name> <tier> <PROP>...
# Evaluates checks against a patched *copy* of /repo without touching /repo:
# worktree + patched tree under /tmp/bg-<name>/repo, copy of the harness with rewritten paths.
patch=$1; name=$2; tier=$3; shift 3
B=/tmp/bg-$name
rm -rf $B; mkdir -p $B/verif
git -C /repo worktree add --detach $B/repo HEAD >/dev/null 2>&1 || { echo "worktree failed"; exit 3; }
git -C $B/repo apply $patch || { echo "patch failed"; git -C /repo worktree remove --force $B/repo; exit 3; }
rsync -a --exclude target /verif/sim/ $B/sim/
sed -i "s#/repo/node#$B/repo/node#g" $B/sim/Cargo.toml
cp /verif/known_findings.json $B/verif/
(cd $B/sim && CARGO_NET_OFFLINE=true cargo build --offline --quiet 2>$B/build.log) || { echo "$name: BUILD FAILED"; tail -5 $B/build.log; }
for p in "$@"; do
  out=$(cd $B/sim && VERIF_DIR=$B/verif ./target/debug/check $p --tier $tier 2>&1); code=$?
  echo "$name $p $tier exit=$code :: $(echo "$out" | grep -E "violation\(s\)|OK property|HARNESS|worker process died" | head -2 | tr '\n' ' ' | cut -c1-300)" | tee -a $B/result.txt
done
cp $B/result.txt /tmp/bg-result-$name.txt 2>/dev/null
git -C /repo worktree remove --force $B/repo
rm -rf $B
