#!/bin/bash
# usage: run_seeded.sh <seeded-id> <tier> <PROP>... : applies /verif/seeded/<id>/patch.diff to /repo, runs the checks, reverts.
id=$1; tier=$2; shift 2
if [ -n "$(git -C /repo status --porcelain)" ]; then echo "refusing: /repo dirty" >&2; exit 3; fi
git -C /repo apply /verif/seeded/$id/patch.diff || exit 3
trap 'git -C /repo checkout -- . ; git -C /repo clean -fdq -- node/components node/libs' EXIT INT TERM
for p in "$@"; do
  out=$(VERIF_DIR=/tmp/verif-scratch /verif/check $p --tier $tier 2>&1)
  code=$?
  echo "$id $p $tier exit=$code :: $(echo "$out" | grep -E "violation\(s\)|OK property|HARNESS|worker process died" | head -2 | tr '\n' ' ' | cut -c1-260)"
done
