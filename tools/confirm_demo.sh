#!/bin/bash
# usage: confirm_demo.sh <id> '<nextest filter expression>' : demo with the patch (must fail) and without it (must pass),
# in the scratch worktree /tmp/wt-confirm; appends to /verif/seeded/<id>/confirm.log.
WT=/tmp/wt-confirm
export CARGO_TARGET_DIR=$WT/node/target
if [ ! -d $WT ]; then git -C /repo worktree add --detach $WT HEAD >/dev/null 2>&1; fi
id=$1; filt=$2; d=/verif/seeded/$id; log=$d/confirm.log
cd $WT && git checkout -q -- . && git clean -fdq -- node/components node/libs >/dev/null
git -C $WT checkout -q --detach $(git -C /repo rev-parse HEAD) 2>>$log
git apply $d/patch.diff && git apply $d/demo.diff || { echo "$id: does not apply"; exit 1; }
echo "manual demo filter: $filt" >> $log
(cd node && cargo nextest run --workspace --no-fail-fast --offline --test-threads 8 -E "$filt" 2>&1 | grep -E "FAIL|PASS|TIMEOUT|Summary|error(\[|:)" | tail -12) >> $log 2>&1
with=$(grep -E "^\s*Summary" $log | tail -1)
git apply -R $d/patch.diff
(cd node && cargo nextest run --workspace --no-fail-fast --offline --test-threads 8 -E "$filt" 2>&1 | grep -E "FAIL|PASS|TIMEOUT|Summary|error(\[|:)" | tail -12) >> $log 2>&1
without=$(grep -E "^\s*Summary" $log | tail -1)
echo "$id: DEMO+patch[$with] DEMO-only[$without]"
cd $WT && git checkout -q -- . && git clean -fdq -- node/components node/libs
