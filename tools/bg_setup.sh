#!/bin/bash
# usage: bg_setup.sh <patch-file> <name> : like bg_eval.sh, but only sets up and builds the patched copy
# under /tmp/bg-<name> and keeps it (run checks there with VERIF_DIR=/tmp/bg-<name>/verif); remove with bg_drop.sh <name>.
patch=$1; name=$2
B=/tmp/bg-$name
rm -rf $B; mkdir -p $B/verif
git -C /repo worktree add --detach $B/repo HEAD >/dev/null 2>&1 || { echo "worktree failed"; exit 3; }
git -C $B/repo apply $patch || { echo "patch failed"; git -C /repo worktree remove --force $B/repo; exit 3; }
rsync -a --exclude target /verif/sim/ $B/sim/
sed -i "s#/repo/node#$B/repo/node#g" $B/sim/Cargo.toml
cp /verif/known_findings.json $B/verif/
(cd $B/sim && CARGO_NET_OFFLINE=true cargo build --offline --quiet 2>$B/build.log) || { echo "$name: BUILD FAILED"; tail -5 $B/build.log; exit 3; }
echo "ready: cd $B/sim && VERIF_DIR=$B/verif ./target/debug/check <PROP> --tier quick"
