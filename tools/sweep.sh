#!/bin/bash
# usage: sweep.sh <name> <tier> <patch-file>...
# Applies each patch in turn to a scratch copy of /repo (worktree /tmp/bg-<name>/repo) and runs the quick/thorough check of the
# property named by the patch's file / directory name (Cxx-...) in a scratch copy of the harness; never touches /repo or /verif/sim.
# Results: /tmp/bg-result-<name>.txt (one line per patch).
name=$1; tier=$2; shift 2
B=/tmp/bg-$name
rm -rf $B; mkdir -p $B/verif
git -C /repo worktree prune
git -C /repo worktree add --detach $B/repo HEAD >/dev/null 2>&1 || { echo "worktree failed"; exit 3; }
rsync -a --exclude target /verif/sim/ $B/sim/
sed -i "s#/repo/node#$B/repo/node#g" $B/sim/Cargo.toml
cp /verif/known_findings.json $B/verif/
: > /tmp/bg-result-$name.txt
for patch in "$@"; do
  id=$(basename $patch .diff); [ "$id" = "patch" ] && id=$(basename $(dirname $patch))
  prop=${id:0:3}
  props=${SWEEP_PROPS:-$prop}
  git -C $B/repo checkout -q -- . ; git -C $B/repo clean -fdq -- node/components node/libs
  if ! git -C $B/repo apply $patch 2>/dev/null; then echo "$id: PATCH DOES NOT APPLY" | tee -a /tmp/bg-result-$name.txt; continue; fi
  if ! (cd $B/sim && CARGO_NET_OFFLINE=true cargo build --offline --quiet 2>$B/build.log); then echo "$id: BUILD FAILED $(grep -m1 '^error' $B/build.log)" | tee -a /tmp/bg-result-$name.txt; continue; fi
  for p in $props; do
    out=$(cd $B/sim && VERIF_RUN_TIMEOUT_S=${VERIF_RUN_TIMEOUT_S:-120} VERIF_DIR=$B/verif ./target/debug/check $p --tier $tier 2>&1); code=$?
    echo "$id $p $tier exit=$code :: $(echo "$out" | grep -E "violation\(s\)|OK property|HARNESS|worker process died" | head -2 | tr '\n' ' ' | cut -c1-260)" | tee -a /tmp/bg-result-$name.txt
  done
done
git -C /repo worktree remove --force $B/repo
rm -rf $B
