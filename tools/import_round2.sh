#!/bin/bash
# usage: import_round2.sh <PROP>... : copies /tmp/wt2-<PROP>/OUT/<PROP>-k to /verif/seeded/<PROP>-(k+3) and removes the worktree.
for P in "$@"; do
  for k in 1 2 3; do
    d=/tmp/wt2-$P/OUT/$P-$k
    if [ -d $d ]; then
      t=/verif/seeded/$P-$((k+3)); mkdir -p $t
      cp $d/patch.diff $t/patch.diff; cp $d/demo.diff $t/demo.diff 2>/dev/null; cp $d/README.md $t/README.md 2>/dev/null
      git -C /repo apply --check $t/patch.diff 2>/dev/null && echo "$P-$((k+3)): imported, applies" || echo "$P-$((k+3)): imported, DOES NOT APPLY to /repo HEAD"
    fi
  done
  git -C /repo worktree remove --force /tmp/wt2-$P 2>/dev/null
done
git -C /repo worktree prune
