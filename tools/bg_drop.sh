#!/bin/bash
# usage: bg_drop.sh <name>
git -C /repo worktree remove --force /tmp/bg-$1/repo; rm -rf /tmp/bg-$1
